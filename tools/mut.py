#!/usr/bin/env python3
"""Sensitivity helper: run checks against a mutated scratch copy of /repo.

  tools/mut.py [--suite] [--tier quick] (--patch P | --file F --old S --new S [--count N]) CHECK...

Copies /repo's working tree (without .git) to a temp dir outside /repo and
/verif, applies the change, optionally runs the repo's suite there (--suite),
runs each check with XLC_REPO=<scratch> (evidence/replays go to a scratch
VF root too, so /verif stays clean), prints one line per check, removes the
scratch copy.
"""
import argparse, os, shutil, subprocess, sys, tempfile

ap = argparse.ArgumentParser()
ap.add_argument('--suite', action='store_true')
ap.add_argument('--tier', default='quick')
ap.add_argument('--patch')
ap.add_argument('--file')
ap.add_argument('--old')
ap.add_argument('--new')
ap.add_argument('--count', type=int, default=1)
ap.add_argument('--keep', action='store_true')
ap.add_argument('--show', type=int, default=3)
ap.add_argument('checks', nargs='*')
a = ap.parse_args()

VERIF = os.path.dirname(os.path.dirname(os.path.abspath(__file__)))
tmp = tempfile.mkdtemp(prefix='xlmut.')
repo = os.path.join(tmp, 'repo')
vroot = os.path.join(tmp, 'verif')
try:
    shutil.copytree('/repo', repo, ignore=shutil.ignore_patterns(
        '.git', '__pycache__', '*.egg-info', '.pytest_cache'))
    if a.patch:
        r = subprocess.run(['patch', '-p1', '-s', '-d', repo, '-i',
                            os.path.abspath(a.patch)])
        if r.returncode:
            print('PATCH FAILED'); sys.exit(3)
    else:
        p = os.path.join(repo, a.file)
        s = open(p).read()
        old = a.old.encode().decode('unicode_escape')
        new = a.new.encode().decode('unicode_escape')
        if s.count(old) != a.count:
            print('OLD occurs %d times, expected %d' % (s.count(old), a.count)); sys.exit(3)
        open(p, 'w').write(s.replace(old, new))
    if a.suite:
        r = subprocess.run([os.path.join(VERIF, 'tools/repotest'), repo],
                           capture_output=True, text=True)
        print('SUITE:', 'pass' if r.returncode == 0 else 'FAIL', r.stdout.strip().splitlines()[0] if r.stdout else '')
        if r.returncode:
            print(r.stdout[-1500:])
    # scratch verif root: symlink code, separate evidence/replays
    os.makedirs(vroot)
    for name in ('vf', 'check', 'known_findings.json', 'tools'):
        src = os.path.join(VERIF, name)
        if os.path.exists(src):
            os.symlink(src, os.path.join(vroot, name))
    if os.path.isdir(os.path.join(VERIF, 'replays')):
        shutil.copytree(os.path.join(VERIF, 'replays'), os.path.join(vroot, 'replays'))
    env = dict(os.environ, XLC_REPO=repo, VF_ROOT=vroot)
    for c in a.checks:
        r = subprocess.run([os.path.join(VERIF, 'check'), c, a.tier],
                           capture_output=True, text=True, env=env)
        lines = r.stdout.strip().splitlines()
        viol = [l for l in lines if l.startswith('VIOLATION')]
        print('%s exit=%d violations=%d' % (c, r.returncode, len(viol)))
        shown = [l for l in lines if l.startswith('  bucket=')][:a.show]
        for l in shown:
            print('   ', l[:300])
        if r.returncode == 2:
            print('\n'.join(lines[-15:]))
            print(r.stderr[-2000:])
finally:
    if a.keep:
        print('kept', tmp)
    else:
        shutil.rmtree(tmp, ignore_errors=True)
