#!/usr/bin/env python3
"""Confirm a seeded change and record it under /verif/seeded/<name>/.

  tools/seedverify.py <name> <property> <srcdir with patch.diff demo.py notes.md> CHECK...

Steps (all in a scratch copy of /repo outside /repo and /verif, removed at
the end): demo on clean copy must exit 0; apply patch; demo must exit != 0;
the repo's own suite must still pass its 815 baseline tests; each CHECK is run
(quick tier) against the patched copy and its verdict recorded.
"""
import json, os, shutil, subprocess, sys, tempfile, time
name, prop, src = sys.argv[1:4]
checks = sys.argv[4:]
VERIF = os.path.dirname(os.path.dirname(os.path.abspath(__file__)))
tmp = tempfile.mkdtemp(prefix='xlseed.')
repo = os.path.join(tmp, 'repo')
meta = {'name': name, 'breaks_property': prop, 'verified_at': time.strftime('%Y-%m-%dT%H:%M:%SZ', time.gmtime()),
        'repo_head': subprocess.run(['git', '-C', '/repo', 'rev-parse', '--short', 'HEAD'], capture_output=True, text=True).stdout.strip()}
try:
    shutil.copytree('/repo', repo, ignore=shutil.ignore_patterns('.git', '__pycache__', '*.egg-info', '.pytest_cache'))
    demo = os.path.join(src, 'demo.py')
    r0 = subprocess.run(['/venv/bin/python', demo, repo], capture_output=True, text=True, cwd=repo)
    meta['demo_clean_exit'] = r0.returncode
    r = subprocess.run(['patch', '-p1', '-s', '-d', repo, '-i', os.path.join(os.path.abspath(src), 'patch.diff')], capture_output=True, text=True)
    if r.returncode:
        print('PATCH DOES NOT APPLY', r.stdout, r.stderr); sys.exit(3)
    r1 = subprocess.run(['/venv/bin/python', demo, repo], capture_output=True, text=True, cwd=repo)
    meta['demo_patched_exit'] = r1.returncode
    meta['demo_patched_output'] = r1.stdout[-800:]
    rs = subprocess.run([os.path.join(VERIF, 'tools/repotest'), repo], capture_output=True, text=True)
    meta['suite_passes_with_change'] = rs.returncode == 0
    meta['suite_summary'] = rs.stdout.strip().splitlines()[0] if rs.stdout else ''
    vroot = os.path.join(tmp, 'verif'); os.makedirs(vroot)
    for n in ('vf', 'check', 'known_findings.json'):
        os.symlink(os.path.join(VERIF, n), os.path.join(vroot, n))
    if os.path.isdir(os.path.join(VERIF, 'replays')):
        shutil.copytree(os.path.join(VERIF, 'replays'), os.path.join(vroot, 'replays'))
    env = dict(os.environ, XLC_REPO=repo, VF_ROOT=vroot)
    meta['checks'] = {}
    for c in checks:
        rc = subprocess.run([os.path.join(VERIF, 'check'), c, 'quick'], capture_output=True, text=True, env=env)
        lines = rc.stdout.strip().splitlines()
        meta['checks'][c] = {'exit': rc.returncode, 'violation_lines': len([l for l in lines if l.startswith('VIOLATION')]),
                             'first_buckets': [l.strip()[:240] for l in lines if l.startswith('  bucket=')][:3]}
    ok = meta['demo_clean_exit'] == 0 and meta['demo_patched_exit'] != 0 and meta['suite_passes_with_change']
    meta['confirmed'] = ok
    meta['caught_by'] = [c for c, v in meta['checks'].items() if v['exit'] == 1]
    print(json.dumps(meta, indent=1)[:2500])
    if ok:
        dst = os.path.join(VERIF, 'seeded', name)
        os.makedirs(dst, exist_ok=True)
        for f in ('patch.diff', 'demo.py', 'notes.md'):
            if os.path.exists(os.path.join(src, f)):
                shutil.copy(os.path.join(src, f), os.path.join(dst, f))
        notes = open(os.path.join(src, 'notes.md')).read() if os.path.exists(os.path.join(src, 'notes.md')) else ''
        meta['needs_to_manifest'] = notes[:1500]
        meta['what_was_run'] = 'tools/seedverify.py: demo.py on a clean scratch copy of /repo (exit 0), patch applied, demo.py (exit 1), repo test suite vs BASELINE.json stable_pass (all pass), then ./check <id> quick with XLC_REPO=<scratch copy>'
        json.dump(meta, open(os.path.join(dst, 'meta.json'), 'w'), indent=1)
        print('KEPT as seeded/' + name)
    else:
        print('NOT CONFIRMED')
finally:
    shutil.rmtree(tmp, ignore_errors=True)
