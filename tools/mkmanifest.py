#!/usr/bin/env python3
"""Regenerates /verif/MANIFEST.json from the check modules present."""
import importlib, json, os, sys
ROOT = os.path.dirname(os.path.dirname(os.path.abspath(__file__)))
sys.path.insert(0, ROOT)
props = [json.loads(l) for l in open(os.path.join(ROOT, 'properties.jsonl'))]
checks, na = [], []
for p in props:
    pid = p['id']
    path = os.path.join(ROOT, 'vf', 'checks', pid.lower() + '.py')
    if not os.path.exists(path):
        na.append({'property_id': pid, 'reason': 'check not built yet in this round (planned, see DESIGN.md section 6)'})
        continue
    m = importlib.import_module('vf.checks.' + pid.lower())
    checks.append({
        'property_id': pid,
        'quick_cmd': './check %s quick' % pid,
        'thorough_cmd': './check %s thorough' % pid,
        'evidence_file': 'evidence/%s.json' % pid,
        'replay_cmd_template': './check %s --replay {path}' % pid,
        'engine': 'vf',
        'level_claimed': {
            'category': getattr(m, 'LEVEL', 'exploration'),
            'text': getattr(m, 'LEVEL_TEXT', 'Generated-input search (Hypothesis strategies plus exhaustive enumeration of the finite sub-domains) against an independent executable oracle; failures are bucketed by root cause and shrunk into replay files. The property quantifies over an unbounded input/history space, so exploration with a reference oracle is the level this technique family can honestly claim: it establishes absence of violations only on what was explored, and the evidence file says how much that is. Explored domain and oracle: ' + getattr(m, 'RULE', '')),
            'design_ref': 'DESIGN.md section 6, ' + pid,
        },
        'level_note': getattr(m, 'LEVEL_NOTE', 'Trusted: CPython, Hypothesis, the reference model under vf/ref and the generators under vf/gen; ' + '; '.join(getattr(m, 'ASSUMPTIONS', []))),
        'technique': getattr(m, 'TECHNIQUE', 'property-based testing (Hypothesis) + exhaustive enumeration against a reference model'),
    })
man = {
    'version': 1,
    'setup_cmd': "sh ./setup.sh",
    'hooks': {
        'guard': 'XLCALCULATOR_VERIF',
        'enable': 'no source hooks are needed: every observation goes through the public API (spies and counters are installed from the harness side)',
        'baseline_off_cmd': 'cd /repo && /venv/bin/python -m pytest -ra -q -p no:cacheprovider --timeout=900 --continue-on-collection-errors',
        'source_commits': [],
        'add_only': True,
    },
    'engines': [{'name': 'vf', 'path': 'vf/', 'serves_properties': [c['property_id'] for c in checks],
                 'kind_free_text': 'Hypothesis + exhaustive enumeration campaign runner: 16 spawned workers under RLIMIT_AS and a parent watchdog; collect -> bucket -> decide against known_findings.json -> shrink -> replay file'}],
    'checks': checks,
    'not_applicable': na,
    'notes': 'All checks rebuild nothing: xlcalculator is pure Python and is imported afresh from /repo (or $XLC_REPO) in every worker process. VERIF_SEED is honoured. known_findings.json lists genuine defects that were recorded rather than repaired, and the fix: commits.',
}
json.dump(man, open(os.path.join(ROOT, 'MANIFEST.json'), 'w'), indent=1)
print('checks', len(checks), 'not_applicable', len(na))
