import json, sys
pid = sys.argv[1]
for l in open('/verif/properties.jsonl'):
    p = json.loads(l)
    if p['id'] == pid:
        break
num = pid[1:]
print(f"""You are helping to evaluate a verification harness by producing ONE realistic, subtle bug ("seeded change") in a Python library.

Library: xlcalculator (pure-Python Excel formula tokenizer, parser, evaluator and function library). You have your own scratch git worktree of it at /tmp/seed_C{num} . Work ONLY inside /tmp/seed_C{num} and /tmp/seed_out/C{num}/ . Never touch /repo or /verif (do not read /verif either).

The property your change must BREAK:

  id: {p['id']}
  title: {p['title']}
  statement: {p['statement']}
  quantifier: {p['quantifier']['text']}
  code anchors: {json.dumps(p['anchors']['files'])}

Task:
1. Read the relevant code in /tmp/seed_C{num}/xlcalculator.
2. Make a small source change (a few lines, in xlcalculator/ only, not tests) that violates the property above while the package still imports and the EXISTING test suite still passes exactly as before. Run the suite from the worktree:
     cd /tmp/seed_C{num} && /venv/bin/python -m pytest -q -p no:cacheprovider -x -q 2>&1 | tail -5
   NOTE: on the unmodified tree exactly 12 tests fail (SUMIF/SUMIFS/countifs/sumifs and Array cast_to_* tests, because the installed pandas lacks applymap) and 815 pass; that is the baseline. Your change must not alter which tests pass (still "12 failed, 815 passed"). Run without -x to see the totals.
   IMPORTANT: python imports `xlcalculator` from the current directory first, so always run python with cwd=/tmp/seed_C{num} or put /tmp/seed_C{num} first on sys.path; otherwise you would be testing /repo.
3. The bug must need something SPECIFIC to manifest - e.g. an unusual input, a particular multi-step sequence of operations, a particular value/size/position boundary, or two cooperating code sites that each look fine alone. It must NOT be something ordinary use (or the simplest imaginable example of the property) would expose at once. Think of what a plausible refactoring slip, off-by-one, wrong cache key, swapped argument, or over-eager optimisation would look like. Prefer a bug whose wrong behaviour is a wrong VALUE or wrong structure, rather than a crash.
4. Write a demonstration program /tmp/seed_out/C{num}/demo.py : a standalone script taking the tree path as argv[1] (default /tmp/seed_C{num}), inserting it first in sys.path, using only the public API (import xlcalculator; ModelCompiler().read_and_parse_dict / read_and_parse_archive, Evaluator.evaluate/set_cell_value/get_cell_value, xlcalculator.FUNCTIONS[...], parser.FormulaParser().parse, Model.persist_to_json_file ... as appropriate), that exits 0 (prints PASS) on the unmodified tree and exits 1 (prints FAIL with the observed vs expected values) with your change. Verify both: run it against your modified worktree (must FAIL) and, after reverting your change with `git diff > /tmp/mychange.diff; git apply -R /tmp/mychange.diff` (never `git stash`: the stash is shared between worktrees and other agents run concurrently), against the clean worktree (must PASS); then re-apply it with `git apply /tmp/mychange.diff`.
5. Save the change as /tmp/seed_out/C{num}/patch.diff (cd /tmp/seed_C{num} && git diff > /tmp/seed_out/C{num}/patch.diff) and write /tmp/seed_out/C{num}/notes.md with: what the change is, exactly what it needs in order to manifest (inputs / sequence), the test-suite totals you observed with the change, and the demo output with and without the change.
6. Leave the worktree with the change applied. Do not commit anything.

Your final message should be a 5-line summary (file changed, what is needed to manifest, suite totals, demo results).""")
