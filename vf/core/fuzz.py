"""Runs one Atheris campaign per shard as a subprocess and merges what it
found into the shard's accumulator (thorough tiers of C01 / C02)."""
import json
import os
import shutil
import subprocess
import sys
import tempfile

from .runner import ROOT, derive_seed

DEPS = os.path.join(os.path.dirname(os.path.dirname(os.path.dirname(
    os.path.abspath(__file__)))), '.deps')


def available():
    return os.path.isdir(os.path.join(DEPS, 'atheris'))


def campaign(mod, builder, runs, seed, shard, hb, acc, max_len=300):
    """-> dict with what the campaign covered (also stored in acc.notes)."""
    if not available():
        acc.notes['atheris'] = 'not installed (.deps/atheris missing): ' \
            'thorough tier ran Hypothesis only'
        return
    tmp = tempfile.mkdtemp(prefix='vf_fuzz_')
    out = os.path.join(tmp, 'findings.jsonl')
    corpus = os.path.join(tmp, 'corpus')
    os.makedirs(corpus)
    dseed = derive_seed(seed, mod.ID + '/atheris', shard) or 1
    env = dict(os.environ)
    code_root = os.path.dirname(os.path.dirname(os.path.dirname(
        os.path.abspath(__file__))))
    env['PYTHONPATH'] = code_root + os.pathsep + DEPS
    cmd = [sys.executable, '-m', 'vf.fuzz.target', mod.__name__, builder, out,
           '-runs=%d' % runs, '-seed=%d' % dseed, '-max_len=%d' % max_len,
           '-timeout=30', '-rss_limit_mb=6000', '-print_final_stats=1',
           corpus]
    hb.begin({'atheris-campaign': mod.ID, 'runs': runs, 'seed': dseed})
    hb.end()        # the campaign is not ONE case: no per-case watchdog
    try:
        p = subprocess.run(cmd, env=env, capture_output=True, text=True,
                           timeout=max(600, runs // 100))
        tail = p.stderr[-1500:]
    except subprocess.TimeoutExpired:
        tail = 'campaign timed out (inconclusive, not a violation)'
    n = nt = 0
    try:
        if os.path.exists(out):
            for line in open(out):
                try:
                    obj = json.loads(line)
                except ValueError:
                    continue
                if 'stats' in obj:
                    n, nt = obj['stats']['n'], obj['stats']['nontrivial']
                    continue
                # re-judge without the fuzzer: the saved input, not the
                # campaign, is the reproducible unit
                res = mod.judge(obj['case'])
                acc.add(obj['case'], res, ['atheris', dseed])
    finally:
        shutil.rmtree(tmp, ignore_errors=True)
    cov = [l for l in tail.splitlines() if 'cov:' in l or 'stat::' in l]
    note = acc.notes.setdefault('atheris', {'campaigns': 0, 'executions': 0,
                                            'nontrivial': 0, 'last': ''})
    if isinstance(note, dict):
        note['campaigns'] += 1
        note['executions'] += n
        note['nontrivial'] += nt
        note['last'] = ' | '.join(cov[-4:])[:400]
    acc.evals += n
