"""Campaign runner: replay -> explore (16 shards) -> bucket -> decide -> shrink.

A check module (vf/checks/cNN.py) provides

  ID, RULE, ASSUMPTIONS, LEVEL_NOTE (str / list)
  strategy(tier)          -> hypothesis strategy of JSON-able cases (or None)
  budget(tier)            -> number of generated cases (total over shards)
  enumerate_cases(tier)   -> iterable of JSON-able cases (optional, exhaustive)
  judge(case)             -> Result   (never raises for a library fault)
  TERMINATION = True      -> a case that does not finish is a violation
  CASE_LIMIT_S            -> watchdog limit per case (default 20)
  extra(tier, seed, ctx)  -> optional additional engine run in shard 0

The parent process never imports xlcalculator.  Everything touching the
library runs in spawned workers under RLIMIT_AS and a parent-side watchdog.
"""
import hashlib
import importlib
import json
import multiprocessing as mp
import os
import resource
import sys
import time
import traceback
from collections import Counter

from . import findings as kf

ROOT = os.environ.get('VF_ROOT') or os.path.dirname(os.path.dirname(
    os.path.dirname(os.path.abspath(__file__))))
NSHARDS = int(os.environ.get('VF_SHARDS', '16'))
RLIMIT_GB = float(os.environ.get('VF_RLIMIT_GB', '8'))
HB_SIZE = 1 << 16


class Result:
    """Outcome of judging one case."""
    __slots__ = ('nontrivial', 'labels', 'fails', 'excluded')

    def __init__(self, nontrivial=False, labels=(), fails=None,
                 excluded=()):
        self.nontrivial = nontrivial
        self.labels = tuple(labels)
        self.fails = fails if fails is not None else []
        self.excluded = tuple(excluded)

    def fail(self, bucket, expected=None, observed=None, note=None):
        self.fails.append({'bucket': bucket, 'expected': expected,
                           'observed': observed, 'note': note})
        return self


class HarnessError(Exception):
    pass


def repo_path():
    return os.path.abspath(os.environ.get('XLC_REPO', '/repo'))


def derive_seed(seed, pid, shard):
    h = hashlib.sha256(f'{seed}/{pid}/{shard}'.encode()).hexdigest()
    return int(h[:8], 16)


def digest(case):
    s = json.dumps(case, sort_keys=True, default=str).encode()
    return hashlib.blake2b(s, digest_size=8).digest()


def case_size(case):
    return len(json.dumps(case, default=str))


# --------------------------------------------------------------------------
# worker side


class Heartbeat:
    def __init__(self, start, buf):
        self.start = start
        self.buf = buf

    def begin(self, case):
        try:
            s = json.dumps(case, default=str).encode()
        except Exception:
            s = repr(case).encode()
        if len(s) >= HB_SIZE - 8:
            s = b'TOOBIG'
        n = len(s)
        self.buf[0:4] = n.to_bytes(4, 'big')
        self.buf[4:4 + n] = s
        self.start.value = time.time()

    def end(self):
        self.start.value = 0.0

    def read(self):
        n = int.from_bytes(bytes(self.buf[0:4]), 'big')
        raw = bytes(self.buf[4:4 + n])
        if raw == b'TOOBIG':
            return None
        try:
            return json.loads(raw.decode())
        except Exception:
            return None


class Acc:
    """Accumulates what one worker saw."""

    def __init__(self, max_samples=6):
        self.evals = 0
        self.nontrivial = set()
        self.labels = Counter()
        self.excluded = Counter()
        self.fails = {}
        self.samples = []
        self.nt_samples = []
        self.max_samples = max_samples
        self.errors = []
        self.notes = {}

    def add(self, case, res, origin):
        self.evals += 1
        for lb in res.labels:
            self.labels[lb] += 1
        for ex in res.excluded:
            self.excluded[ex] += 1
        if res.nontrivial:
            self.nontrivial.add(digest(case))
            if len(self.nt_samples) < self.max_samples:
                self.nt_samples.append(case)
        elif len(self.samples) < 2:
            self.samples.append(case)
        for f in res.fails:
            b = f['bucket']
            size = case_size(case)
            cur = self.fails.get(b)
            if cur is None:
                self.fails[b] = {'count': 1, 'case': case, 'size': size,
                                 'expected': f['expected'],
                                 'observed': f['observed'],
                                 'note': f['note'], 'origin': origin}
            else:
                cur['count'] += 1
                if size < cur['size']:
                    cur.update(case=case, size=size, expected=f['expected'],
                               observed=f['observed'], note=f['note'],
                               origin=origin)

    def export(self):
        return {'evals': self.evals,
                'nontrivial': list(self.nontrivial),
                'labels': dict(self.labels),
                'excluded': dict(self.excluded),
                'fails': self.fails,
                'samples': self.samples, 'nt_samples': self.nt_samples,
                'errors': self.errors, 'notes': self.notes}


def _setup_worker():
    lim = int(RLIMIT_GB * (1 << 30))
    try:
        resource.setrlimit(resource.RLIMIT_AS, (lim, lim))
    except (ValueError, OSError):
        pass
    sys.setrecursionlimit(3000)
    rp = repo_path()
    if rp not in sys.path[:1]:
        sys.path.insert(0, rp)
    import xlcalculator
    f = os.path.abspath(xlcalculator.__file__)
    if not f.startswith(rp + os.sep):
        raise HarnessError(f'xlcalculator imported from {f}, not {rp}')
    import logging
    logging.disable(logging.CRITICAL)
    import warnings
    warnings.filterwarnings('ignore')
    try:
        import numpy
        numpy.seterr(all='ignore')
    except Exception:
        pass


def hyp_settings(n, shrink=False):
    from hypothesis import settings, HealthCheck, Phase
    phases = [Phase.generate] + ([Phase.shrink] if shrink else [])
    return settings(max_examples=n, database=None, deadline=None,
                    derandomize=False, report_multiple_bugs=False,
                    suppress_health_check=list(HealthCheck), phases=phases)


def explore_shard(mod, tier, seed, shard, nshards, hb, acc):
    # 1. exhaustive part, round-robin over shards
    enum = getattr(mod, 'enumerate_cases', None)
    if enum is not None:
        import inspect
        own = len(inspect.signature(enum).parameters) >= 3
        it = enum(tier, shard, nshards) if own else enum(tier)
        for i, case in enumerate(it):
            if not own and i % nshards != shard:
                continue
            hb.begin(case)
            res = mod.judge(case)
            hb.end()
            acc.add(case, res, ['enum', i])
    # 2. sampled part
    strat = mod.strategy(tier) if hasattr(mod, 'strategy') else None
    if strat is not None:
        total = mod.budget(tier)
        n = max(1, total // nshards)
        dseed = derive_seed(seed, mod.ID, shard)
        import hypothesis
        from hypothesis import given

        seen = [0]

        @hypothesis.seed(dseed)
        @hyp_settings(n)
        @given(strat)
        def run(case):
            hb.begin(case)
            res = mod.judge(case)
            hb.end()
            acc.add(case, res, ['hyp', dseed, n])
            seen[0] += 1
            if seen[0] <= 25:
                # replay files hold the JSON form of a case: it must judge
                # the same (tuples become lists, keys become strings)
                again = mod.judge(json.loads(json.dumps(case, default=str)))
                if sorted(f['bucket'] for f in again.fails) != sorted(
                        f['bucket'] for f in res.fails):
                    raise HarnessError('case does not survive the JSON '
                                       'round trip: %r' % (case,))

        run()
    # 3. extra engines (state machines, long-run measurements, fuzzers)
    extra = getattr(mod, 'extra', None)
    if extra is not None:
        extra(tier, seed, shard, nshards, hb, acc)


class _StopShrink(BaseException):
    pass


class _Found(Exception):
    pass


def shrink_bucket(mod, tier, bucket, info, max_calls):
    """Re-find the bucket's failure with the same seed and let Hypothesis
    shrink it.  Returns the smallest failing case seen (or the collected
    one)."""
    best = {'case': info['case'], 'size': info['size'],
            'expected': info['expected'], 'observed': info['observed'],
            'note': info['note'], 'shrunk': False}
    origin = info.get('origin') or []
    if not origin or origin[0] != 'hyp' or not hasattr(mod, 'strategy'):
        return best
    strat = mod.strategy(tier)
    if strat is None:
        return best
    _, dseed, n = origin
    import hypothesis
    from hypothesis import given
    calls = {'after': 0, 'found': False}

    @hypothesis.seed(dseed)
    @hyp_settings(n, shrink=True)
    @given(strat)
    def run(case):
        if calls['found']:
            calls['after'] += 1
            if calls['after'] > max_calls:
                raise _StopShrink()
        res = mod.judge(case)
        for f in res.fails:
            if f['bucket'] == bucket:
                calls['found'] = True
                size = case_size(case)
                if size <= best['size']:
                    best.update(case=case, size=size, expected=f['expected'],
                                observed=f['observed'], note=f['note'],
                                shrunk=True)
                raise _Found()

    try:
        run()
    except (_Found, _StopShrink):
        pass
    except Exception:  # hypothesis Flaky etc: keep what we have
        pass
    return best


def worker_main(task, conn, hb_start, hb_buf):
    hb = Heartbeat(hb_start, hb_buf)
    out = {'ok': False}
    try:
        _setup_worker()
        mod = importlib.import_module(task['module'])
        if hasattr(mod, 'configure'):
            mod.configure(task.get('config') or {})
        kind = task['kind']
        if kind == 'explore':
            acc = Acc()
            explore_shard(mod, task['tier'], task['seed'], task['shard'],
                          task['nshards'], hb, acc)
            out = acc.export()
            out['ok'] = True
        elif kind == 'judge':
            # replay of explicit cases
            results = []
            for item in task['cases']:
                hb.begin(item['case'])
                res = mod.judge(item['case'])
                hb.end()
                results.append({'name': item['name'], 'fails': res.fails,
                                'nontrivial': res.nontrivial})
            out = {'ok': True, 'results': results}
        elif kind == 'shrink':
            res = {}
            for bucket, info in task['buckets'].items():
                res[bucket] = shrink_bucket(mod, task['tier'], bucket, info,
                                            task['max_calls'])
            out = {'ok': True, 'shrunk': res}
        else:
            raise HarnessError(f'unknown task {kind}')
    except BaseException as err:  # noqa: BLE001
        out = {'ok': False, 'error': ''.join(traceback.format_exception(
            type(err), err, err.__traceback__))[-6000:]}
    try:
        conn.send(out)
    finally:
        conn.close()


# --------------------------------------------------------------------------
# parent side


def run_tasks(tasks, limit_s):
    """Run tasks in parallel worker processes under the watchdog.
    Returns list of (task, result-or-None, hang_case-or-None)."""
    ctx = mp.get_context('spawn')
    live = []
    for t in tasks:
        pc, cc = ctx.Pipe(duplex=False)
        st = ctx.RawValue('d', 0.0)
        buf = ctx.RawArray('B', HB_SIZE)
        p = ctx.Process(target=worker_main, args=(t, cc, st, buf),
                        daemon=True)
        p.start()
        cc.close()
        live.append({'task': t, 'proc': p, 'conn': pc,
                     'hb': Heartbeat(st, buf), 'res': None, 'hang': None,
                     'done': False})
    pending = list(live)
    while pending:
        time.sleep(0.05)
        for w in list(pending):
            if w['conn'].poll(0):
                try:
                    w['res'] = w['conn'].recv()
                except (EOFError, OSError):
                    w['res'] = None
                w['done'] = True
            elif not w['proc'].is_alive():
                # died without a result (e.g. OOM kill / segfault)
                if w['conn'].poll(0.1):
                    try:
                        w['res'] = w['conn'].recv()
                    except (EOFError, OSError):
                        w['res'] = None
                else:
                    w['hang'] = ('died', w['hb'].read()
                                 if w['hb'].start.value else None)
                w['done'] = True
            else:
                st = w['hb'].start.value
                if st and time.time() - st > limit_s:
                    case = w['hb'].read()
                    w['proc'].kill()
                    w['hang'] = ('timeout', case)
                    w['done'] = True
            if w['done']:
                w['proc'].join(timeout=5)
                if w['proc'].is_alive():
                    w['proc'].kill()
                try:
                    w['conn'].close()
                except OSError:
                    pass
                pending.remove(w)
    return [(w['task'], w['res'], w['hang']) for w in live]


def load_replays(pid):
    d = os.path.join(ROOT, 'replays', pid)
    items = []
    if os.path.isdir(d):
        for fn in sorted(os.listdir(d)):
            if fn.endswith('.json'):
                with open(os.path.join(d, fn)) as fp:
                    data = json.load(fp)
                items.append({'name': 'replays/%s/%s' % (pid, fn),
                              'case': data['case']})
    return items


def safe_name(bucket):
    keep = ''.join(c if c.isalnum() or c in '-_.' else '_' for c in bucket)
    h = hashlib.sha1(bucket.encode()).hexdigest()[:6]
    return (keep[:60] + '-' + h)


def write_replay(pid, bucket, info, tier, seed):
    d = os.path.join(ROOT, 'replays', pid)
    os.makedirs(d, exist_ok=True)
    path = os.path.join(d, 'viol-' + safe_name(bucket) + '.json')
    with open(path, 'w') as fp:
        json.dump({'property': pid, 'bucket': bucket, 'case': info['case'],
                   'expected': info.get('expected'),
                   'observed': info.get('observed'),
                   'note': info.get('note'), 'tier': tier, 'seed': seed,
                   'shrunk': info.get('shrunk', False)},
                  fp, indent=1, default=str)
    return os.path.relpath(path, ROOT)


def run_check(modname, pid, tier, seed, replay=None, config=None):
    t0 = time.time()
    mod_spec = importlib.util.find_spec(modname)
    if mod_spec is None:
        print(f'harness error: no module {modname}')
        return 2
    meta = _load_meta(modname)
    limit = meta.get('CASE_LIMIT_S', 20)
    known = kf.load(os.path.join(ROOT, 'known_findings.json'), pid)
    base = {'module': modname, 'tier': tier, 'seed': seed, 'config': config}

    violations = {}      # bucket -> info
    known_hit = {}       # finding id -> (finding, count)
    harness_errors = []

    def decide(bucket, info, source):
        f = known.match(bucket)
        if f is not None:
            cur = known_hit.setdefault(f['id'], [f, 0])
            cur[1] += info.get('count', 1)
        else:
            cur = violations.get(bucket)
            if cur is None or info.get('size', 1e18) < cur.get('size', 1e18):
                keep = dict(info)
                keep['source'] = source
                keep['count'] = info.get('count', 1) + (
                    cur['count'] if cur else 0)
                violations[bucket] = keep
            else:
                cur['count'] += info.get('count', 1)

    # ---- replay-only mode
    if replay is not None:
        with open(replay) as fp:
            data = json.load(fp)
        items = [{'name': replay, 'case': data['case']}]
        out = run_tasks([dict(base, kind='judge', cases=items)], limit * 3)
        _, res, hang = out[0]
        if hang is not None:
            if meta.get('TERMINATION', True):
                print(f'VIOLATION property={pid} replay={replay}')
                return 1
            print('harness error: replay did not finish')
            return 2
        if not res or not res.get('ok'):
            print('harness error:', (res or {}).get('error'))
            return 2
        bad = False
        for r in res['results']:
            for f in r['fails']:
                fk = known.match(f['bucket'])
                if fk is not None:
                    print(f"KNOWN-FINDING: property={pid} id={fk['id']} "
                          f"{fk['what']}")
                else:
                    bad = True
                    print(f"  bucket={f['bucket']} expected={f['expected']} "
                          f"observed={f['observed']} note={f['note']}")
        if bad:
            print(f'VIOLATION property={pid} replay={replay}')
            return 1
        print(f'OK property={pid} replay={replay}: no disagreement')
        return 0

    # ---- phase 0: saved replays + witnesses of known findings
    items = load_replays(pid)
    for f in known.entries:
        if f.get('witness') is not None:
            items.append({'name': 'known:' + f['id'], 'case': f['witness']})
    tasks = []
    if items:
        tasks.append(dict(base, kind='judge', cases=items))
    for s in range(NSHARDS):
        tasks.append(dict(base, kind='explore', shard=s, nshards=NSHARDS))
    outs = run_tasks(tasks, limit)

    merged = {'evals': 0, 'nontrivial': set(), 'labels': Counter(),
              'excluded': Counter(), 'samples': [], 'nt_samples': [],
              'notes': {}}
    fails = {}
    hangs = []
    shards_lost = 0
    replayed = 0
    witness_failing = set()
    for task, res, hang in outs:
        if hang is not None:
            hangs.append((task, hang))
            if task['kind'] == 'explore':
                shards_lost += 1
            continue
        if not res or not res.get('ok'):
            harness_errors.append((res or {}).get('error', 'no result'))
            continue
        if task['kind'] == 'judge':
            for r in res['results']:
                replayed += 1
                for f in r['fails']:
                    if r['name'].startswith('known:'):
                        witness_failing.add(r['name'][6:])
                    info = {'count': 1, 'case': _case_of(items, r['name']),
                            'expected': f['expected'],
                            'observed': f['observed'], 'note': f['note'],
                            'origin': ['replay', r['name']]}
                    info['size'] = case_size(info['case'])
                    _merge_fail(fails, f['bucket'], info)
        else:
            merged['evals'] += res['evals']
            merged['nontrivial'].update(bytes(x) for x in res['nontrivial'])
            merged['labels'].update(res['labels'])
            merged['excluded'].update(res['excluded'])
            for k, v in res.get('notes', {}).items():
                cur = merged['notes'].setdefault(k, v)
                if cur is not v and isinstance(cur, dict) and isinstance(
                        v, dict):
                    # per-shard counters (fuzzing campaigns) add up
                    for kk, vv in v.items():
                        if isinstance(vv, (int, float)) and isinstance(
                                cur.get(kk), (int, float)):
                            cur[kk] += vv
            if len(merged['samples']) < 3:
                merged['samples'].extend(res['samples'][:1])
            if len(merged['nt_samples']) < 8:
                merged['nt_samples'].extend(res['nt_samples'][:1])
            for b, info in res['fails'].items():
                _merge_fail(fails, b, info)
            harness_errors.extend(res.get('errors', []))

    # ---- hangs: re-run alone with a long limit
    for task, (why, case) in hangs:
        if case is None:
            harness_errors.append(
                f'worker {why} outside a case (task {task["kind"]} '
                f'shard {task.get("shard")})')
            continue
        out = run_tasks([dict(base, kind='judge',
                              cases=[{'name': 'hang', 'case': case}])],
                        max(60, limit * 3))
        _, res, hang2 = out[0]
        if hang2 is not None:
            if meta.get('TERMINATION', True):
                info = {'count': 1, 'case': case, 'size': case_size(case),
                        'expected': 'a result within %ds' % max(60, limit * 3),
                        'observed': why, 'note': 'case did not finish twice',
                        'origin': ['hang']}
                _merge_fail(fails, 'does-not-terminate', info)
            else:
                harness_errors.append('case did not finish: %r' % (case,))
        elif res and res.get('ok'):
            for r in res['results']:
                for f in r['fails']:
                    info = {'count': 1, 'case': case,
                            'size': case_size(case),
                            'expected': f['expected'],
                            'observed': f['observed'], 'note': f['note'],
                            'origin': ['hang-rerun']}
                    _merge_fail(fails, f['bucket'], info)
        else:
            harness_errors.append((res or {}).get('error', 'no result'))

    for b, info in fails.items():
        decide(b, info, 'explore')

    # ---- shrink unlisted buckets (bounded)
    to_shrink = {b: v for b, v in violations.items()
                 if (v.get('origin') or [''])[0] == 'hyp'}
    if to_shrink:
        max_calls = 150 if tier == 'quick' else 5000
        some = list(to_shrink.items())[:NSHARDS]
        outs = run_tasks([dict(base, kind='shrink', buckets={b: v},
                               max_calls=max_calls) for b, v in some],
                         max(60, limit * 3))
        for _, res, hang in outs:
            if hang is None and res and res.get('ok'):
                for b, best in res['shrunk'].items():
                    violations[b].update(best)

    # ---- verdict lines
    printed_known = []
    for f in known.entries:
        if f['status'] != 'known':
            continue
        hit = known_hit.get(f['id'])
        if f['id'] in witness_failing or hit:
            line = (f"KNOWN-FINDING: property={pid} id={f['id']} "
                    f"{f['what']}")
            print(line)
            printed_known.append(f['id'])
    nviol = 0
    for b, info in sorted(violations.items()):
        path = write_replay(pid, b, info, tier, seed)
        nviol += 1
        print(f'  bucket={b} count={info.get("count")} '
              f'expected={_short(info.get("expected"))} '
              f'observed={_short(info.get("observed"))} '
              f'note={_short(info.get("note"))}')
        print(f'VIOLATION property={pid} replay={path}')

    # ---- evidence
    wall = time.time() - t0
    samples = (merged['nt_samples'][:6] + merged['samples'][:2]) or []
    cov = {
        'evaluations': merged['evals'] + replayed,
        'distinct_nontrivial': len(merged['nontrivial']),
        'rule': meta.get('RULE', ''),
        'samples': samples,
        'labels': dict(merged['labels'].most_common()),
        'excluded': dict(merged['excluded']),
        'replayed_saved_cases': replayed,
        'shards': NSHARDS, 'shards_lost_to_hangs': shards_lost,
        'known_findings_printed': printed_known,
        'failing_buckets': {b: v.get('count') for b, v in fails.items()},
        'exhaustive': bool(meta.get('EXHAUSTIVE', {}).get(tier, False)),
        'notes': merged['notes'],
    }
    ev = {'property_id': pid, 'tier': tier, 'seed': seed,
          'level': meta.get('LEVEL', 'exploration'), 'coverage': cov,
          'assumptions': meta.get('ASSUMPTIONS', []),
          'wall_s': round(wall, 2), 'violations': nviol}
    os.makedirs(os.path.join(ROOT, 'evidence'), exist_ok=True)
    with open(os.path.join(ROOT, 'evidence', pid + '.json'), 'w') as fp:
        json.dump(ev, fp, indent=1, default=str)

    if harness_errors:
        for e in harness_errors[:5]:
            print('harness error:', e)
        if not nviol:
            return 2
    if nviol:
        return 1
    print(f'OK property={pid} tier={tier} seed={seed} '
          f'evaluations={cov["evaluations"]} '
          f'distinct_nontrivial={cov["distinct_nontrivial"]} '
          f'wall={wall:.1f}s')
    return 0


def _short(x, n=160):
    s = json.dumps(x, default=str) if not isinstance(x, str) else x
    return s if len(s) <= n else s[:n] + '...'


def _case_of(items, name):
    for it in items:
        if it['name'] == name:
            return it['case']
    return None


def _merge_fail(fails, bucket, info):
    cur = fails.get(bucket)
    if cur is None:
        fails[bucket] = dict(info)
    else:
        n = cur['count'] + info['count']
        if info['size'] < cur['size']:
            cur.update(info)
        cur['count'] = n


def _load_meta(modname):
    """Read the constant metadata of a check module without importing the
    library (check modules import xlcalculator lazily)."""
    mod = importlib.import_module(modname)
    keys = ('RULE', 'ASSUMPTIONS', 'LEVEL', 'CASE_LIMIT_S', 'TERMINATION',
            'EXHAUSTIVE')
    return {k: getattr(mod, k) for k in keys if hasattr(mod, k)}
