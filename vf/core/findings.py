"""known_findings.json: committed, read-only at run time.

{"version": 1, "findings": [
  {"id": "...", "property": "C03", "status": "known" | "fixed",
   "class": "<bucket key, fnmatch pattern allowed>", "what": "...",
   "witness": <case for that property's judge>, "commit": "<sha>" (fixed)}]}

status=known  -> a failing bucket matching `class` prints KNOWN-FINDING and
                 does not fail the check.
status=fixed  -> suppresses nothing; the witness stays in the replay tier.
"""
import fnmatch
import json
import os


class Known:
    def __init__(self, entries):
        self.entries = entries

    def match(self, bucket):
        for f in self.entries:
            if f['status'] != 'known':
                continue
            c = f['class']
            if c == bucket or (('*' in c or '?' in c)
                               and fnmatch.fnmatchcase(bucket, c)):
                return f
        return None


def load(path, pid):
    if not os.path.exists(path):
        return Known([])
    with open(path) as fp:
        data = json.load(fp)
    if data.get('version') != 1 or not isinstance(data.get('findings'), list):
        raise SystemExit(2)
    out = []
    for f in data['findings']:
        for k in ('id', 'property', 'status', 'class', 'what'):
            if k not in f:
                print('harness error: malformed known_findings entry', f)
                raise SystemExit(2)
        if f['status'] not in ('known', 'fixed'):
            print('harness error: bad status in', f['id'])
            raise SystemExit(2)
        if f['property'] == pid:
            out.append(f)
    return Known(out)
