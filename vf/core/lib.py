"""Thin helpers around the public API of the library under test.

Only `import xlcalculator` is used (never a function module: importing one
registers its functions as a side effect and would hide registration bugs).
"""
from .norm import norm, exc_tag, root_exc, lib

PROBE = 'Sheet1!ZZ1'


def fn(name):
    """Function object as a user gets it: xl.FUNCTIONS[name]."""
    return lib().FUNCTIONS[name]


def has_fn(name):
    return name in lib().FUNCTIONS


def call_fn(name, *args):
    xl = lib()
    try:
        f = xl.FUNCTIONS[name]
    except KeyError:
        return ('X', 'KeyError', 'FUNCTIONS[%s]' % name)
    try:
        return norm(f(*args))
    except Exception as err:  # noqa: BLE001
        return exc_tag(err)


def compile_dict(cells, default_sheet='Sheet1'):
    xl = lib()
    return xl.ModelCompiler().read_and_parse_dict(
        dict(cells), default_sheet=default_sheet)


def evaluate(model, addr, evaluator=None):
    """Evaluate -> normalised tag; exception -> ('X', root type, frame)."""
    xl = lib()
    ev = evaluator if evaluator is not None else xl.Evaluator(model)
    try:
        return norm(ev.evaluate(addr))
    except Exception as err:  # noqa: BLE001
        return root_exc(err)


def eval_formula(formula, cells=None, addr=PROBE, default_sheet='Sheet1',
                 presets=None):
    """Compile {cells + addr: formula} and evaluate addr.

    presets: {addr: python value} applied with set_cell_value after
    compilation (for booleans / dates / blanks the dict format cannot hold).
    Returns (tag, stage) where stage is 'compile' or 'eval'."""
    d = dict(cells or {})
    d[addr] = formula
    try:
        model = compile_dict(d, default_sheet)
    except Exception as err:  # noqa: BLE001
        return exc_tag(err), 'compile'
    xl = lib()
    try:
        ev = xl.Evaluator(model)
        for a, v in (presets or {}).items():
            ev.set_cell_value(a, v)
    except Exception as err:  # noqa: BLE001
        return exc_tag(err), 'preset'
    return evaluate(model, addr, ev), 'eval'
