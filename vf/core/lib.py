"""Thin helpers around the public API of the library under test.

Only `import xlcalculator` is used (never a function module: importing one
registers its functions as a side effect and would hide registration bugs).
"""
from .norm import norm, exc_tag, root_exc, lib, fresh_library  # noqa: F401

PROBE = 'Sheet1!ZZ1'


def fn(name):
    """Function object as a user gets it: xl.FUNCTIONS[name]."""
    return lib().FUNCTIONS[name]


def has_fn(name):
    return name in lib().FUNCTIONS


def call_fn(name, *args):
    xl = lib()
    try:
        f = xl.FUNCTIONS[name]
    except KeyError:
        return ('X', 'KeyError', 'FUNCTIONS[%s]' % name)
    try:
        return norm(f(*args))
    except Exception as err:  # noqa: BLE001
        return exc_tag(err)


def compile_dict(cells, default_sheet='Sheet1'):
    """read_and_parse_dict over the cells in one of three ARRANGEMENTS of
    the same dictionary (as given, reversed, sorted by address downwards),
    chosen by a hash of the content: which key comes first - formulas before
    the cells they use, sheets interleaved - must not matter."""
    import zlib
    xl = lib()
    items = list(dict(cells).items())
    k = zlib.crc32(repr(sorted(map(repr, items))).encode()) % 3
    if k == 1:
        items.reverse()
    elif k == 2:
        items.sort(key=lambda kv: kv[0], reverse=True)
    return xl.ModelCompiler().read_and_parse_dict(
        dict(items), default_sheet=default_sheet)


def evaluate(model, addr, evaluator=None):
    """Evaluate -> normalised tag; exception -> ('X', root type, frame)."""
    xl = lib()
    ev = evaluator if evaluator is not None else xl.Evaluator(model)
    try:
        return norm(ev.evaluate(addr))
    except Exception as err:  # noqa: BLE001
        return root_exc(err)


def eval_formula(formula, cells=None, addr=PROBE, default_sheet='Sheet1',
                 presets=None):
    """Compile {cells + addr: formula} and evaluate addr.

    presets: {addr: python value} applied with set_cell_value after
    compilation (for booleans / dates / blanks the dict format cannot hold).
    Returns (tag, stage) where stage is 'compile' or 'eval'."""
    d = dict(cells or {})
    d[addr] = formula
    warm = bool(cells) and _warm(formula, cells)
    if warm:
        # metamorphic re-evaluation (every 4th formula with cells, chosen by
        # a hash of its text): compile with PERTURBED numeric inputs,
        # evaluate once, put the real inputs in with set_cell_value and
        # evaluate again on the same evaluator.  By C04 that must equal a
        # fresh model's answer, so any state carried from one evaluation to
        # the next (caches in AST nodes, functions, ranges) shows up in every
        # check that evaluates formulas over cells.
        i = 0
        for a, v in sorted(d.items()):
            if a != addr and isinstance(v, (int, float)) and not isinstance(
                    v, bool):
                # not one shift for all (that would keep every comparison
                # between two inputs as it is): +1, -2, +3, ...
                i += 1
                d[a] = v + (i if i % 2 else -i)
            elif a != addr and isinstance(v, str) and v[:1] != '=':
                d[a] = v + 'q'
    try:
        model = compile_dict(d, default_sheet)
    except Exception as err:  # noqa: BLE001
        return exc_tag(err), 'compile'
    xl = lib()
    try:
        ev = xl.Evaluator(model)
        for a, v in (presets or {}).items():
            ev.set_cell_value(a, v)
        if warm:
            try:
                ev.evaluate(addr)
            except Exception:  # noqa: BLE001 - only the second run counts
                pass
            for a, v in cells.items():
                if d.get(a) != v and a not in (presets or {}):
                    ev.set_cell_value(a, v)
    except Exception as err:  # noqa: BLE001
        return exc_tag(err), 'preset'
    return evaluate(model, addr, ev), 'eval'


def _warm(formula, cells=None):
    import zlib
    if '^' in formula or 'POWER' in formula.upper() or 'FACT' in \
            formula.upper():
        return False    # perturbed inputs could make power towers explode
    key = formula + repr(sorted((cells or {}).items(), key=repr))
    return zlib.crc32(key.encode('utf-8', 'replace')) % 4 == 0
