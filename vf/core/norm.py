"""One value normaliser for every check.

norm(v) maps whatever the library hands back (library value objects, native
Python values, numpy scalars, pandas frames, exceptions) to a small tagged
tuple of plain data, so that int-vs-float, Number(2)-vs-2 or the info text of
an error never influence a verdict.

  ('N', float)      number
  ('T', str)        text
  ('B', bool)       boolean
  ('Z',)            blank
  ('D', isoformat)  date/time
  ('E', code)       any ExcelError instance
  ('A', rows)       array (list of lists of normalised values)
  ('X', exc type, innermost xlcalculator frame)   Python exception escaped
  ('?', repr)       anything else
"""
import datetime
import math
import traceback

_xl = None


def lib():
    global _xl
    if _xl is None:
        import xlcalculator
        _xl = xlcalculator
    return _xl


class fresh_library(object):
    """Context manager: a second, independent copy of the library.

    Inside the block `lib()` (and with it every helper of vf.core.lib and
    norm()) is a freshly imported copy of the xlcalculator package: new
    module objects, hence new classes, registries, caches and every other
    piece of module-level state - what a new Python process would see, for
    ~50 ms instead of a second.  On exit the original copy is back.  Used to
    observe values WITHOUT whatever the library may have remembered from
    earlier work in this process."""

    def __enter__(self):
        import importlib
        import sys
        global _xl
        lib()
        self.saved = {k: m for k, m in sys.modules.items()
                      if k == 'xlcalculator' or k.startswith('xlcalculator.')}
        self.saved_xl = _xl
        for k in self.saved:
            del sys.modules[k]
        try:
            _xl = importlib.import_module('xlcalculator')
        except BaseException:
            self._restore()
            raise
        return _xl

    def _restore(self):
        import sys
        global _xl
        for k in [k for k in sys.modules
                  if k == 'xlcalculator' or k.startswith('xlcalculator.')]:
            del sys.modules[k]
        sys.modules.update(self.saved)
        _xl = self.saved_xl

    def __exit__(self, *exc):
        self._restore()
        return False


def norm(v):
    xl = lib()
    if isinstance(v, xl.ExcelError):
        return ('E', str(v.value))
    if isinstance(v, xl.Blank) or v is None:
        return ('Z',)
    if isinstance(v, xl.Boolean):
        return ('B', bool(v.value))
    if isinstance(v, xl.Number):
        return _num(v.value)
    if isinstance(v, xl.Text):
        return ('T', str(v.value))
    if isinstance(v, xl.DateTime):
        return ('D', _iso(v.value))
    if isinstance(v, xl.Array):
        return ('A', [[norm(c) for c in row] for row in v.values.tolist()])
    if isinstance(v, bool):
        return ('B', v)
    if isinstance(v, (int, float)):
        return _num(v)
    if isinstance(v, str):
        return ('T', v)
    if isinstance(v, datetime.datetime):
        return ('D', _iso(v))
    try:
        import numpy
        if isinstance(v, numpy.bool_):
            return ('B', bool(v))
        if isinstance(v, (numpy.integer, numpy.floating)):
            return _num(v.item())
        if isinstance(v, numpy.datetime64):
            return ('D', str(v))
        if isinstance(v, numpy.complexfloating):
            return ('?', 'complex')
    except ImportError:  # pragma: no cover
        pass
    if isinstance(v, complex):
        return ('?', 'complex')
    return ('?', type(v).__name__)


def _iso(d):
    try:
        return d.isoformat()
    except Exception:
        return str(d)


def _num(x):
    try:
        f = float(x)
    except OverflowError:
        return ('N', 'huge')
    if math.isnan(f):
        return ('N', 'nan')
    if math.isinf(f):
        return ('N', 'inf' if f > 0 else '-inf')
    return ('N', f)


def exc_tag(err):
    """('X', type name, innermost xlcalculator frame 'file:function')."""
    frame = '?'
    tb = err.__traceback__
    for fs in traceback.extract_tb(tb):
        if '/xlcalculator/' in fs.filename:
            frame = fs.filename.split('/xlcalculator/')[-1] + ':' + fs.name
    return ('X', type(err).__name__, frame)


def call(fn, *args, **kw):
    """Call library code; a Python exception becomes an ('X', ...) tag."""
    try:
        return norm(fn(*args, **kw))
    except Exception as err:  # noqa: BLE001 - the tag is the observation
        return exc_tag(err)


def root_exc(err):
    """Evaluator.evaluate wraps exceptions into RuntimeError(repr(inner)).
    Return the tag of the innermost original exception (via __context__)."""
    seen = 0
    while getattr(err, '__context__', None) is not None and seen < 200:
        err = err.__context__
        seen += 1
    return exc_tag(err)


def is_num(t):
    return t[0] == 'N' and isinstance(t[1], float)


def is_err(t):
    return t[0] == 'E'


def is_exc(t):
    return t[0] == 'X'


def close(a, b, rel=1e-12, abs_=0.0):
    """Tagged numbers equal within tolerance; other tags exactly."""
    if is_num(a) and is_num(b):
        x, y = a[1], b[1]
        if x == y:
            return True
        return abs(x - y) <= max(abs_, rel * max(abs(x), abs(y)))
    return a == b


def ulps(x, y):
    if x == y:
        return 0
    if x == 0 or y == 0 or (x < 0) != (y < 0):
        return float('inf') if abs(x - y) > 1e-300 else 1
    import struct
    a = struct.unpack('>q', struct.pack('>d', x))[0]
    b = struct.unpack('>q', struct.pack('>d', y))[0]
    return abs(a - b)


def text_eq_mod_dot0(a, b):
    """Text results compared modulo a trailing '.0' (DESIGN 5.2)."""
    if a == b:
        return True
    if a[0] == 'T' and b[0] == 'T':
        return _strip0(a[1]) == _strip0(b[1])
    return False


def _strip0(s):
    return s[:-2] if s.endswith('.0') else s
