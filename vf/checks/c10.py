"""C10 - IF/AND/OR/NOT select lazily and follow Excel's truth rules."""
from vf.core.runner import Result
from vf.core import lib
from vf.core.norm import norm, root_exc, exc_tag
from vf.gen.decode import decoded

ID = 'C10'
LEVEL = 'exploration'
RULE = ('sampled (Hypothesis-decoded) trees: conditions = TRUE/FALSE, '
        'numbers (0, non-zero, negative, fractional), references to cells '
        'holding those or nothing, comparisons, nested IF/AND/OR/NOT; '
        'branches = constants, references, nested logic and three kinds of '
        'poison that must not matter when unselected (1/0, a call of an '
        'unregistered function, a reference to a cell on a cycle); branches '
        'and AND/OR arguments are wrapped in SPY(k, expr), a function '
        "registered only in that evaluator's namespace which logs k; AND/OR "
        'with 1-8 arguments mixing scalars and ranges of logicals, numbers, '
        'blanks and cells whose value is an error (=1/0, =NA()) '
        'and blanks; IF with 2 and 3 arguments; enumerated: IF x {TRUE, '
        'FALSE, 0, 1, -2, 0.5, blank cell} x each poison in the other '
        'branch, 2- and 3-argument forms.  Oracle: a reference lazy '
        'evaluator gives the value and, per spy, must / must-not / may be '
        'logged (short-circuiting AND/OR is allowed, not required).  '
        'Non-trivial = a poisoned or spied sub-expression in an unselected '
        'position, or AND/OR over >= 3 elements of >= 2 kinds; distinct by '
        'tree + cells.')
ASSUMPTIONS = [
    'text conditions / text arguments of AND/OR and AND/OR whose elements '
    'are all blank are not generated; an IF whose selected branch is a '
    'reference to an empty cell may answer blank or 0',
    'an error is owed by AND/OR only if an argument yielding it was '
    'actually evaluated (spy log)',
]
CASE_LIMIT_S = 30

CONDS = [True, False, 0, 1, -2, 0.5, 3, 1e-16, -4e-16, 5e-324, 1e-300, 1e300]
CELLS = {'A1': True, 'A2': False, 'A3': 0, 'A4': 5, 'A5': -1.5, 'A6': None,
         'B1': True, 'B2': None, 'B3': 1, 'C1': False, 'C2': 0, 'C3': None,
         'D1': 2, 'D2': True, 'D3': 7, 'E1': 1e-20, 'E2': 0, 'E3': -3e-17}
RANGES = ['B1:B3', 'C1:C3', 'D1:D3', 'A1:A2', 'A3:A6', 'B1:C2', 'E1:E3',
          'E2:E3']
POISONS = ['div0', 'unknown', 'cycle']


class _Spies:
    def __init__(self):
        self.n = 0

    def new(self):
        self.n += 1
        return self.n


def _cond(d, depth, sp):
    k = d.pick(10)
    if depth <= 0 or k < 3:
        if d.pick(2):
            return ['c', d.choice(CONDS)]
        return ['r', d.choice(['A1', 'A2', 'A3', 'A4', 'A5', 'A6', 'E1', 'E3',
                               'F2', 'G1', 'G3'])]
    if k < 5:
        return ['cmp', d.choice(['<', '>', '=', '<>', '<=', '>=']),
                ['c', d.int(-3, 3)], ['r', d.choice(['A3', 'A4', 'A5'])]]
    if k == 5:
        return ['NOT', _cond(d, depth - 1, sp)]
    if k == 6:
        return _if(d, depth - 1, sp, cond_branches=True)
    return _andor(d, depth - 1, sp)


def _andor(d, depth, sp):
    fn = d.choice(['AND', 'OR'])
    n = d.choice([1, 2, 2, 3, 3, 4, 5, 8, 9, 10, 11, 30])
    args = []
    for _ in range(n):
        k = d.pick(8)
        if k < 2:
            a = ['rng', d.choice(RANGES)]
        elif k == 2 and depth > 0:
            a = ['poison', d.choice(POISONS)]
        else:
            a = _cond(d, depth - 1, sp)
        args.append(['spy', sp.new(), a])
    # at least one certainly non-blank element
    if all(a[2][0] in ('rng',) or a[2] == ['r', 'A6'] for a in args):
        args.append(['spy', sp.new(), ['c', True]])
    return [fn, args]


def _branch(d, depth, sp, cond_like=False):
    k = d.pick(10)
    if k < 2 and not cond_like:
        x = ['c', d.choice([10, 20, 'yes', 'no', 2.5, True, False])]
    elif k < 3:
        # (A6 and C3 are EMPTY cells: the branch's value is a blank)
        x = ['r', d.choice(['A4', 'A5', 'D1', 'D3', 'A1', 'A6', 'C3'])]
    elif k < 4:
        x = ['poison', d.choice(POISONS)]
    elif k < 5:
        # an error LITERAL is a value like any other when unselected
        x = ['e', d.choice(['#N/A', '#DIV/0!', '#REF!', '#VALUE!', '#NUM!',
                            '#NAME?', '#NULL!'])]
    elif k < 7 and depth > 0:
        x = _if(d, depth - 1, sp, cond_branches=cond_like)
    elif k < 8 and depth > 0:
        x = _andor(d, depth - 1, sp)
    else:
        x = ['c', d.choice([1, 0, True, False, 42])]
    if d.pick(3):
        x = ['spy', sp.new(), x]
    return x


def _if(d, depth, sp, cond_branches=False):
    c = _cond(d, depth, sp)
    a = _branch(d, depth, sp, cond_branches)
    b = None if d.pick(5) == 0 else _branch(d, depth, sp, cond_branches)
    return ['IF', c, a, b]


FLIPS = {'A1': False, 'A2': True, 'A3': 2, 'A4': 0, 'A5': 0, 'B1': False,
         'B3': 0, 'C1': True, 'C2': 3, 'D1': 0, 'D2': False}


def _build(d, depth):
    sp = _Spies()
    k = d.pick(6)
    if k < 3:
        t = _if(d, depth, sp)
    elif k < 5:
        t = _andor(d, depth, sp)
    else:
        t = ['NOT', _cond(d, depth, sp)]
    case = {'tree': t, 'fnspell': d.choice([0, 0, 0, 1, 2, 3, 4])}
    if d.pick(3) == 0:
        # evaluate, change some inputs, evaluate AGAIN on the same evaluator:
        # the second result must follow the new inputs
        keys = sorted(FLIPS)
        n = d.int(1, 4)
        case['flip'] = sorted({d.choice(keys) for _ in range(n)})
    return case


def strategy(tier):
    depth = 3 if tier == 'quick' else 5
    return decoded(lambda d: _build(d, depth), min_size=24,
                   max_size=240 if tier == 'quick' else 400)


def budget(tier):
    return 30000 if tier == 'quick' else 1500000


def enumerate_cases(tier, shard=0, nshards=1):
    out = []
    conds = [['c', v] for v in CONDS] + [['r', 'A6'], ['r', 'A1'],
                                         ['r', 'A2'], ['r', 'A3'],
                                         ['e', '#N/A'], ['e', '#VALUE!']]
    for c in conds:
        for p in POISONS:
            out.append({'tree': ['IF', c, ['spy', 1, ['c', 10]],
                                 ['spy', 2, ['poison', p]]]})
            out.append({'tree': ['IF', c, ['spy', 1, ['poison', p]],
                                 ['spy', 2, ['c', 20]]]})
        for code in ('#N/A', '#REF!', '#DIV/0!'):
            out.append({'tree': ['IF', c, ['c', 10], ['e', code]]})
            out.append({'tree': ['IF', c, ['e', code], ['c', 20]]})
            out.append({'tree': ['IF', c, ['spy', 1, ['c', 10]],
                                 ['spy', 2, ['e', code]]]})
        out.append({'tree': ['IF', c, ['spy', 1, ['c', 5]], None]})
        out.append({'tree': ['IF', c, ['c', 5], None]})
        # the selected branch is a reference to an EMPTY cell
        out.append({'tree': ['IF', c, ['r', 'A6'], ['c', 5]]})
        out.append({'tree': ['IF', c, ['c', 5], ['r', 'A6']]})
        out.append({'tree': ['IF', c, ['r', 'A6'], ['r', 'C3']]})
        out.append({'tree': ['IF', c, ['IF', c, ['r', 'A6'], ['c', 1]],
                             ['IF', c, ['c', 1], ['r', 'C3']]]})
        out.append({'tree': ['NOT', c]})
    # AND / OR over UNWRAPPED arguments of different shapes (cells,
    # constants, computed comparisons, ranges, nested calls), every ordered
    # pair and triple: arguments count in the order in which they are written
    import itertools
    for fn in ('AND', 'OR'):
        for n in (2, 3):
            for items in itertools.permutations(range(len(ORDER_POOL)), n):
                out.append({'k': 'order', 'fn': fn, 'items': list(items)})
    # many ELEMENTS in few arguments: ranges of 255, 256, 257, 300 and 700
    # cells (the limit of 255 is on arguments, not on cells)
    for fn in ('AND', 'OR'):
        for n in (255, 256, 257, 300, 700):
            for decided_at in (None, n, n // 2):
                out.append({'k': 'many', 'fn': fn, 'n': n,
                            'decided_at': decided_at})
    for i, c in enumerate(out):
        if i % nshards == shard:
            yield c


def _many_case(case, res):
    fn, n, at = case['fn'], case['n'], case['decided_at']
    neutral = (fn == 'AND')          # TRUE never decides AND, FALSE never OR
    cells = {}
    for i in range(1, n + 1):
        v = neutral if i != at else (not neutral)
        cells['Sheet1!H%d' % i] = 1 if v else 0
    text = '=%s(H1:H%d)' % (fn, n)
    text2 = '=IF(%s(H1:H%d,H1:H%d),"y","n")' % (fn, n // 2, n)
    want = neutral if at is None else (not neutral)
    res.nontrivial = True
    res.labels = ('many', fn)
    for f, w in ((text, ('B', want)), (text2, ('T', 'y' if want else 'n'))):
        o = lib.eval_formula(f, cells, addr='Sheet1!Q1')[0]
        if o != w:
            res.fail('many-elements:%s:%s' % (fn, 'n>255' if n > 255
                                              else 'n<=255'), w, o, f)
            break
    return res


# (formula text, value) over A1 TRUE, A2 FALSE, A3 0, A4 5, C2 0, D1 2,
# B1:B3 = TRUE, blank, 1 and G1:G2 = #N/A, 0
ORDER_POOL = [('A1', True), ('A2', False), ('1', True), ('0', False),
              ('A4/A3>1', '#DIV/0!'), ('D1>1', True), ('C2>1', False),
              ('G1:G2', '#N/A'), ('B1:B3', True), ('NOT(A1)', False)]


def _order_case(case, res):
    fn = case['fn']
    items = [ORDER_POOL[i] for i in case['items']]
    text = '=%s(%s)' % (fn, ','.join(t for t, _ in items))
    cells, presets = {}, {}
    for a, v in CELLS.items():
        if v is None:
            continue
        if isinstance(v, bool):
            cells['Sheet1!' + a] = 0
            presets['Sheet1!' + a] = v
        elif isinstance(v, Err):
            cells['Sheet1!' + a] = ERRFORM[v.code]
        else:
            cells['Sheet1!' + a] = v
    obs = lib.eval_formula(text, cells, addr='Sheet1!Q1', presets=presets)[0]
    decide = (fn == 'OR')
    # (i) one after the other, stopping at the first deciding value
    lazy = None
    for _, v in items:
        if isinstance(v, str):
            lazy = ('E', v)
            break
        if v is decide:
            lazy = ('B', decide)
            break
    if lazy is None:
        lazy = ('B', not decide)
    # (ii) all of them: the first error, else the conjunction / disjunction
    errs = [v for _, v in items if isinstance(v, str)]
    eager = ('E', errs[0]) if errs else lazy
    res.nontrivial = True
    res.labels = ('order', fn, 'n:%d' % len(items))
    if obs != lazy and obs != eager:
        res.fail('arguments-not-taken-in-written-order:%s' % fn,
                 [lazy, eager], obs, text)
    return res


# ------------------------------------------------------------ rendering

def lit(v):
    if isinstance(v, bool):
        return 'TRUE' if v else 'FALSE'
    if isinstance(v, str):
        return '"%s"' % v
    return repr(v) if v >= 0 else '(%r)' % v


# spelling of the function names in the rendered formula (names are matched
# case-insensitively and an _xlfn. prefix is ignored): per case
FNSPELL = [0]


def _fn(name):
    k = FNSPELL[0]
    if k == 1:
        return name.lower()
    if k == 2:
        return name.capitalize()
    if k == 3:
        return '_xlfn.' + name
    if k == 4:
        return '_xlfn.' + name.lower()
    return name


def render(t):
    k = t[0]
    if k == 'c':
        return lit(t[1])
    if k == 'e':
        return t[1]
    if k in ('r', 'rng'):
        return t[1]
    if k == 'cmp':
        return '(%s%s%s)' % (render(t[2]), t[1], render(t[3]))
    if k == 'NOT':
        return '%s(%s)' % (_fn('NOT'), render(t[1]))
    if k == 'IF':
        if t[3] is None:
            return '%s(%s,%s)' % (_fn('IF'), render(t[1]), render(t[2]))
        return '%s(%s,%s,%s)' % (_fn('IF'), render(t[1]), render(t[2]),
                                 render(t[3]))
    if k in ('AND', 'OR'):
        return '%s(%s)' % (_fn(k), ','.join(render(a) for a in t[1]))
    if k == 'spy':
        return 'SPY(%d,%s)' % (t[1], render(t[2]))
    if k == 'poison':
        return {'div0': '1/0', 'unknown': 'NOSUCHFN(1)', 'cycle': 'Z1'}[t[1]]
    raise ValueError(k)


# --------------------------------------------------------------- reference

class Err:
    def __init__(self, code):
        self.code = code


# cells whose VALUE is an error (computed by =1/0 and =NA()), inside ranges
ERRCELLS = {'F1': 1, 'F2': Err('#DIV/0!'), 'F3': 0, 'G1': Err('#N/A'),
            'G2': 0, 'G3': True}
ERRFORM = {'#DIV/0!': '=1/0', '#N/A': '=NA()'}
CELLS.update(ERRCELLS)
RANGES.extend(['F1:F3', 'F2:F3', 'G1:G2', 'G2:G3', 'F3:G3', 'G1:G3',
               # two-dimensional, with errors: elements count in ROW-major
               # order (F1, G1, F2, G2, ...)
               'F1:G2', 'F2:G3', 'F1:G3', 'E1:G2', 'D1:G3'])


class Crash(Exception):
    """Evaluating this legitimately raises (unknown function, cycle)."""


UNDEF = object()


def truth(v):
    if isinstance(v, bool):
        return v
    if isinstance(v, (int, float)):
        return v != 0
    if v is None:
        return False
    return UNDEF


def all_spies(t, acc):
    if t is None:
        return
    k = t[0]
    if k == 'spy':
        acc.add(t[1])
        all_spies(t[2], acc)
    elif k == 'cmp':
        all_spies(t[2], acc), all_spies(t[3], acc)
    elif k == 'NOT':
        all_spies(t[1], acc)
    elif k == 'IF':
        for x in t[1:]:
            all_spies(x, acc)
    elif k in ('AND', 'OR'):
        for a in t[1]:
            all_spies(a, acc)


def ref_eval(t, log, must, mustnot):
    """lazy reference evaluation; returns native value / Err; raises Crash."""
    k = t[0]
    if k == 'c':
        return t[1]
    if k == 'e':
        return Err(t[1])
    if k == 'r':
        return CUR[0].get(t[1])
    if k == 'rng':
        return ('RANGE', t[1])
    if k == 'poison':
        if t[1] == 'div0':
            return Err('#DIV/0!')
        raise Crash(t[1])
    if k == 'spy':
        must.add(t[1])
        return ref_eval(t[2], log, must, mustnot)
    if k == 'cmp':
        a = ref_eval(t[2], log, must, mustnot)
        b = ref_eval(t[3], log, must, mustnot)
        for x in (a, b):
            if isinstance(x, Err):
                return x
        a = 0 if a is None else a
        b = 0 if b is None else b
        if isinstance(a, bool) or isinstance(b, bool):
            return UNDEF
        return {'<': a < b, '>': a > b, '=': a == b, '<>': a != b,
                '<=': a <= b, '>=': a >= b}[t[1]]
    if k == 'NOT':
        v = ref_eval(t[1], log, must, mustnot)
        if isinstance(v, Err) or v is UNDEF:
            return v
        tv = truth(v)
        return UNDEF if tv is UNDEF else (not tv)
    if k == 'IF':
        c = ref_eval(t[1], log, must, mustnot)
        if c is UNDEF:
            return UNDEF
        if isinstance(c, Err):
            for x in (t[2], t[3]):
                all_spies(x, mustnot)
            return c
        tv = truth(c)
        if tv is UNDEF:
            return UNDEF
        sel, other = (t[2], t[3]) if tv else (t[3], t[2])
        all_spies(other, mustnot)
        if sel is None:
            return False
        return ref_eval(sel, log, must, mustnot)
    if k in ('AND', 'OR'):
        vals = []
        first_err = None
        lenient = None
        decided = False
        for a in t[1]:
            sid = a[1]
            if sid not in log:
                # not evaluated by the library - or its evaluation raised
                # before the spy could log (a legitimately broken argument)
                if CRASHED[0] and _has_crash_poison(a):
                    raise Crash('in-and-or')
                continue
            v = ref_eval(a, log, must, mustnot)
            must.discard(sid)       # 'may': short-circuit is allowed
            if v is UNDEF:
                return UNDEF
            if isinstance(v, Err):
                if first_err is None:
                    first_err = v
                continue
            items = _items(v)
            for it in items:
                if isinstance(it, Err):
                    # an error ELEMENT of a range: it is the result unless
                    # the elements before it had already decided the result
                    # (the statement says "among the evaluated arguments";
                    # Excel returns the error, an element-wise short circuit
                    # the decided value: both are accepted then)
                    dec = any(vals) if k == 'OR' else not all(vals)
                    if first_err is None and lenient is None:
                        if dec:
                            lenient = (it, k == 'OR')
                        else:
                            first_err = it
                    continue
                if it is None:
                    continue
                tv = truth(it)
                if tv is UNDEF:
                    return UNDEF
                vals.append(tv)
        n_eval = sum(1 for a in t[1] if a[1] in log)
        # arguments are taken in the order in which they are written: the
        # evaluated ones form a PREFIX of the list (an argument may only be
        # skipped once the arguments before it have decided the result)
        flags = [a[1] in log for a in t[1]]
        if any(later and not earlier for earlier, later in
               zip(flags, flags[1:])) and not (CRASHED[0]):
            return ('OUT-OF-ORDER', k, flags)
        if first_err is not None:
            return ('ERR-OR-DECIDED', first_err, k, vals)
        if lenient is not None:
            return ('ERR-OR-VALUE', lenient[0], k, lenient[1])
        res = all(vals) if k == 'AND' else any(vals)
        if n_eval < len(t[1]):
            # skipping is only allowed once the result is decided
            decided = (k == 'AND' and not res) or (k == 'OR' and res)
            if not decided:
                return ('UNDECIDED-SKIP', k)
        return res
    raise ValueError(k)


CRASHED = [False]
CUR = [CELLS]


def _has_crash_poison(t):
    s = str(t)
    return "'unknown'" in s or "'cycle'" in s


def _items(v):
    if isinstance(v, tuple) and v and v[0] == 'RANGE':
        from vf.ref.refeval import range_cells
        return [CUR[0].get(a) for row in range_cells(v[1]) for a in row]
    return [v]


def ntag(v):
    if isinstance(v, Err):
        return ('E', v.code)
    if isinstance(v, bool):
        return ('B', v)
    if isinstance(v, (int, float)):
        return ('N', float(v))
    if isinstance(v, str):
        return ('T', v)
    if v is None:
        return ('Z',)
    return None


def judge(case):
    res = Result()
    if case.get('k') == 'order':
        return _order_case(case, res)
    if case.get('k') == 'many':
        return _many_case(case, res)
    tree = case['tree']
    xl = lib.lib()
    FNSPELL[0] = case.get('fnspell', 0)
    try:
        text = '=' + render(tree)
    finally:
        FNSPELL[0] = 0
    cells = {}
    presets = {}
    for a, v in CELLS.items():
        if v is None:
            continue
        if isinstance(v, bool):
            cells['Sheet1!' + a] = 0
            presets['Sheet1!' + a] = v
        elif isinstance(v, Err):
            cells['Sheet1!' + a] = ERRFORM[v.code]
        else:
            cells['Sheet1!' + a] = v
    cells['Sheet1!Z1'] = '=Z2+1'
    cells['Sheet1!Z2'] = '=Z1+1'
    cells['Sheet1!Q1'] = text
    log = []

    def SPY(k, value):
        log.append(int(k))
        return value
    try:
        model = lib.compile_dict(cells)
        ns = xl.FUNCTIONS.copy()
        ns['SPY'] = SPY
        ev = xl.Evaluator(model, namespace=ns)
        for a, v in presets.items():
            ev.set_cell_value(a, v)
    except Exception as err:  # noqa: BLE001
        t = exc_tag(err)
        res.fail('compile-exception:%s:%s' % (t[1], t[2]), 'model', t, text)
        return res
    try:
        obs = norm(ev.evaluate('Sheet1!Q1'))
    except Exception as err:  # noqa: BLE001
        obs = root_exc(err)
    CUR[0] = CELLS
    if case.get('flip'):
        first = _assess(case, res, tree, text, obs, log, 'first')
        if res.fails:
            return res
        cur = dict(CELLS)
        for a in case['flip']:
            cur[a] = FLIPS[a]
            ev.set_cell_value('Sheet1!' + a, FLIPS[a])
        CUR[0] = cur
        del log[:]
        try:
            obs = norm(ev.evaluate('Sheet1!Q1'))
        except Exception as err:  # noqa: BLE001
            obs = root_exc(err)
        try:
            _assess(case, res, tree, text, obs, log, 'after-input-change')
        finally:
            CUR[0] = CELLS
        res.nontrivial = True
        return res
    return _assess(case, res, tree, text, obs, log, '')


def _assess(case, res, tree, text, obs, log, stage):
    logset = set(log)
    must, mustnot = set(), set()
    CRASHED[0] = obs[0] == 'X'
    try:
        want = ref_eval(tree, logset, must, mustnot)
        crashed = None
    except Crash as c:
        want, crashed = None, str(c)
    spies = set()
    all_spies(tree, spies)
    has_poison = 'poison' in str(tree)
    res.labels = (tree[0],) + (('poison',) if has_poison else ()) + (
        ('crash-selected',) if crashed else ())
    res.nontrivial = bool(mustnot) or (
        tree[0] in ('AND', 'OR') and len(tree[1]) >= 3)
    feat = _feature(tree) + ((':' + stage) if stage else '')
    if crashed:
        # a selected branch really is broken: an exception is legitimate
        if obs[0] != 'X':
            res.fail('selected-poison-ignored:%s' % crashed, 'an exception',
                     obs, text)
        return res
    if want is UNDEF:
        res.nontrivial = False
        res.labels += ('reference-abstains',)
        return res
    if isinstance(want, tuple) and want and want[0] == 'UNDECIDED-SKIP':
        res.fail('skipped-argument-before-decided:%s' % want[1],
                 'all arguments evaluated or result decided', sorted(log),
                 text)
        return res
    if isinstance(want, tuple) and want and want[0] == 'OUT-OF-ORDER':
        res.fail('argument-evaluated-before-an-earlier-one:%s' % want[1],
                 'arguments evaluated in written order', want[2], text)
        return res
    if isinstance(want, tuple) and want and want[0] == 'ERR-OR-VALUE':
        if obs[0] != 'E' and obs != ('B', want[3]):
            res.fail('error-element-after-decision:%s' % want[2],
                     [ntag(want[1]), ['B', want[3]]], obs, text)
        return res
    if isinstance(want, tuple) and want and want[0] == 'ERR-OR-DECIDED':
        w = ntag(want[1])
        if obs != w:
            res.fail('error-argument:%s' % want[2], w, obs, text)
        return res
    w = ntag(want)
    if w == ('Z',) and obs == ('N', 0.0):
        obs = w         # a blank handed on, or shown as 0 as Excel does
    if obs != w:
        b = 'value:%s' % feat
        if obs[0] == 'X':
            b = 'exception:%s:%s:%s' % (obs[1], obs[2], feat)
        res.fail(b, w, obs, text)
        return res
    bad = logset & mustnot
    if bad:
        res.fail('unselected-branch-evaluated', 'spies %s not logged'
                 % sorted(mustnot), sorted(log), text)
    missing = must - logset
    if missing:
        res.fail('selected-branch-not-evaluated', sorted(must), sorted(log),
                 text)
    return res


def _feature(t):
    s = str(t)
    if t[0] == 'IF' and t[3] is None:
        return 'IF-2-args'
    if "'IF'" in s and 'None]' in s:
        return 'nested-IF-2-args'
    if 'poison' in s:
        return 'with-poison'
    return t[0]
