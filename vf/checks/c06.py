"""C06 - circular references are reported, acyclic sharing is never flagged."""
import itertools

from vf.core.runner import Result
from vf.core import lib
from vf.core.norm import norm, exc_tag
from vf.gen.decode import decoded

ID = 'C06'
LEVEL = 'exploration'
TERMINATION = True
CASE_LIMIT_S = 30
RULE = ('enumerated: every cycle length 1..6 with every entry point, with an '
        'acyclic prefix of 0..3 cells, closed through a plain reference or '
        'through a range (SUM over a run containing / feeding the cycle), '
        'self references; DAGs rich in sharing: the same cell twice in one '
        'formula, diamonds of width 2-4 and depth 1-6, a cell reached both '
        'directly and through a range; the basic cycles and diamonds again '
        'on the workbook path with every (every second) reference spelled '
        'as a defined name of the cell / range; the same shapes with pass-through '
        'formulas =IF(x=y,x,y) over BLANK or constant leaves (every cell of '
        'the chain is blank); failure-depth family: chains of '
        'length 2,4,8,16,32 whose last cell fails (unknown function; a '
        'function raising a Python error injected through the namespace); '
        'sampled (Hypothesis-decoded): random digraphs on <= 8 cells with '
        '<= 3 references (cells or ranges, repeats allowed) per formula.  '
        'Oracle: reachability by DFS.  Cycle reachable: evaluate must raise, '
        'the message must contain "cycle", and the number of nested '
        'evaluate calls / nesting depth (counted by a wrapper that cuts a '
        'diverging evaluation off with a BaseException) must stay within 4x '
        'what a path-based detector needs; no cycle reachable: the reference '
        'value, never a cycle report.  Failure family: message length and '
        'call count may grow at most cubically: L(2k) <= 8 L(k) + 4096.  '
        'Non-trivial = cycle length >= 2 or closed through a range; acyclic '
        'with a node reached along >= 2 paths; distinct by graph + entry.')
ASSUMPTIONS = [
    '"promptly"/"polynomially" are decided by deterministic proxies (call '
    'counts, nesting depth, message length), not the clock; a blow-up that '
    'starts beyond depth 32 would pass',
]

NAMES = ['A%d' % i for i in range(1, 300)]


def _cycle_case(n_prefix, length, entry, via):
    """cells: prefix P0..Pp-1 -> cycle C0..CL-1 (Ci refers to Ci+1)."""
    cells = {}
    total = n_prefix + length
    for i in range(n_prefix):
        cells[NAMES[i]] = [['ref', NAMES[i + 1]]]
    for j in range(length):
        me = NAMES[n_prefix + j]
        nxt = NAMES[n_prefix + (j + 1) % length]
        if via == 'range' and j == length - 1:
            # close the cycle through a range that contains the target
            lo = n_prefix
            hi = n_prefix + max(0, length - 2)
            cells[me] = [['range', '%s:%s' % (NAMES[lo], NAMES[hi])]]
        else:
            cells[me] = [['ref', nxt]]
    return {'k': 'graph', 'cells': cells, 'eval': NAMES[entry],
            'n': total}


def enumerate_cases(tier, shard=0, nshards=1):
    out = []
    for length in range(1, 7):
        for prefix in range(0, 4):
            for entry in range(0, prefix + length):
                for via in ('ref', 'range'):
                    out.append(_cycle_case(prefix, length, entry, via))
    # the same cycles with every reference inside the CONDITION of an IF
    # (conditions are always evaluated: the cycle must be reported, not
    # turned into an error value)
    out.extend([dict(c, mode='cond') for c in out] +
               # ... and with a postfix % in every formula text (=A2*100%+1):
               # the text of a failing formula is part of the report
               [dict(c, mode='pct') for c in out] +
               # ... and with an ERROR VALUE as the left operand of the first
               # operator (=XE9+A2+1 with XE9 = 1/0): the references on the
               # right still belong to the formula
               [dict(c, mode='errleft') for c in out])
    # ... and on the WORKBOOK path with every reference (every second one:
    # 'named2') going through a DEFINED NAME of the cell / of the range
    out.extend([dict(c, mode=m_) for c in out
                if 'mode' not in c for m_ in ('named', 'named2')])
    # long cycles / long prefixes (well inside Python's recursion limit)
    for length, prefix in ((10, 0), (26, 3), (27, 0), (40, 10), (1, 60),
                           (60, 0), (2, 50), (102, 0), (150, 20), (200, 0)):
        for entry in (0, prefix, prefix + length - 1):
            for via in ('ref', 'range'):
                out.append(_cycle_case(prefix, length, entry, via))
    # long acyclic chains: must return the value, never a cycle report
    for n in (30, 60):
        cells = {NAMES[i]: [['ref', NAMES[i + 1]]] for i in range(n)}
        out.append({'k': 'graph', 'cells': cells,
                    'consts': {NAMES[n]: 5}, 'eval': NAMES[0], 'n': n + 1})
    # sharing without cycles
    for width in (2, 3, 4):
        for depth in range(1, 7):
            cells = {}
            # use a grid A..: column by layer
            def nm(d, w):
                return '%s%d' % ('ABCDEFGH'[d], w + 1)
            for d in range(depth):
                for w in range(width):
                    cells[nm(d, w)] = [['ref', nm(d + 1, x)]
                                       for x in range(width)]
            consts = {nm(depth, w): w + 1 for w in range(width)}
            cells['H9'] = [['ref', nm(0, w)] for w in range(width)]
            out.append({'k': 'graph', 'cells': cells, 'consts': consts,
                        'eval': 'H9', 'n': len(cells)})
            out.append({'k': 'graph', 'cells': cells, 'consts': consts,
                        'eval': 'H9', 'n': len(cells), 'mode': 'named'})
    out.append({'k': 'graph', 'cells': {'B1': [['ref', 'A1'], ['ref', 'A1'],
                                               ['ref', 'A1']]},
                'consts': {'A1': 5}, 'eval': 'B1', 'n': 1})
    out.append({'k': 'graph', 'cells': {
        'A3': [['ref', 'A1'], ['range', 'A1:A2']],
        'A2': [['ref', 'A1']]}, 'consts': {'A1': 2}, 'eval': 'A3', 'n': 2})
    out.append({'k': 'graph', 'cells': {
        'A4': [['range', 'A1:A3'], ['range', 'A2:A3'], ['ref', 'A3']],
        'A3': [['ref', 'A2'], ['ref', 'A1']], 'A2': [['ref', 'A1']]},
        'consts': {'A1': 2}, 'eval': 'A4', 'n': 3})
    # acyclic chains across sheets whose names are suffixes of one another
    for depth in (1, 2, 3):
        cells = {'XSheet1!A1': [['ref', 'A1']]}
        consts = {'A%d' % (depth): 4}
        for i in range(1, depth):
            cells['A%d' % i] = [['ref', 'A%d' % (i + 1)]]
        out.append({'k': 'graph', 'cells': cells, 'consts': consts,
                    'eval': 'XSheet1!A1', 'n': depth + 1})
    out.append({'k': 'graph', 'cells': {'XSheet1!A2': [['range', 'A1:A3']],
                                        'A2': [['ref', 'XSheet1!A1']]},
                'consts': {'XSheet1!A1': 2, 'A1': 3}, 'eval': 'XSheet1!A2',
                'n': 4})
    # pass-through formulas (=IF(x=x,x,x)): BLANK (or constant) leaves keep
    # every cell above them blank; chains and diamonds in which each formula
    # mentions its precedents several times
    for n in (3, 8, 14, 20):
        for leaf in (None, 5):
            for nrefs in (1, 2, 3):
                cells = {NAMES[i]: [['ref', NAMES[i + 1]]] * nrefs
                         for i in range(n)}
                out.append({'k': 'graph', 'mode': 'pass', 'cells': cells,
                            'consts': {} if leaf is None else {NAMES[n]: leaf},
                            'eval': NAMES[0], 'n': n + 1})
    for width in (2, 3):
        for depth in (2, 4, 6):
            for blank in (True, False):
                cells = {}

                def nm2(d_, w):
                    return '%s%d' % ('ABCDEFGH'[d_], w + 1)
                for d_ in range(depth):
                    for w in range(width):
                        cells[nm2(d_, w)] = [['ref', nm2(d_ + 1, x)]
                                             for x in range(width)]
                cells['H9'] = [['ref', nm2(0, w)] for w in range(width)]
                out.append({'k': 'graph', 'mode': 'pass', 'cells': cells,
                            'consts': {} if blank else {
                                nm2(depth, w): w + 1 for w in range(width)},
                            'eval': 'H9', 'n': len(cells)})
    for kind in ('unknown', 'pyerror'):
        out.append({'k': 'faildepth', 'kind': kind})
    # BIG acyclic models: many formula cells under one SUM, ladders of
    # width 2 (2^depth evaluations without a model-wide memo): a value,
    # never a cycle report, however much work it is
    for n in (5000, 10050, 12000):
        out.append({'k': 'big', 'shape': 'sum', 'n': n})
    for n in (13, 14, 15):
        out.append({'k': 'big', 'shape': 'ladder2', 'n': n})
    # WIDE ladders: every formula mentions its precedent twice with a range
    # of `width` other cells in between (=A2+SUM(C1:..1)+A2); the work must
    # stay linear in depth x width whatever the width, whether the ladder
    # ends in a value, a failure or a cycle
    for width in (3, 64, 127, 128, 129, 200, 300):
        for depth in (3, 6, 9):
            for end in ('value', 'unknown', 'cycle'):
                out.append({'k': 'wide', 'width': width, 'depth': depth,
                            'end': end})
    # one Evaluator reused after a FAILED evaluation: once the cause is
    # gone the same cells must evaluate normally (no stale chain -> no bogus
    # cycle report)
    for depth in (1, 2, 3, 4):
        for cause in ('unknown', 'pyerror', 'cycle'):
            for via in ('ref', 'range'):
                out.append({'k': 'reuse', 'depth': depth, 'cause': cause,
                            'via': via})
    # a cycle behind a lazily evaluated IF: everything evaluates while the
    # guard is closed; once an input opens it the cycle must be reported
    for length in (1, 2, 3):
        for pre in range(0, 2 ** (length + 1)):
            out.append({'k': 'guarded', 'len': length, 'pre': pre})
    for i, c in enumerate(out):
        if i % nshards == shard:
            yield c


def _build(d):
    n = d.int(1, 8)
    cells = {}
    consts = {}
    two = d.pick(3) == 0
    if two:
        # two sheets, one name a suffix of the other, same coordinates
        pool = ['A%d' % i for i in range(1, 5)] + \
            ['XSheet1!A%d' % i for i in range(1, 5)]
        n = d.int(2, 8)
        for me in pool[:n] if d.pick(2) else list(reversed(pool))[:n]:
            if d.pick(5) == 0:
                consts[me] = d.int(1, 9)
                continue
            refs = []
            for _ in range(d.int(1, 3)):
                if d.pick(5) == 0:
                    refs.append(['range', d.choice(['A1:A2', 'XSheet1!A1:A3',
                                                    'XSheet1!A2:A4',
                                                    'A2:A4'])])
                else:
                    refs.append(['ref', d.choice(pool[:max(n, 2)])])
            cells[me] = refs
        if not cells:
            cells['XSheet1!A1'] = [['ref', 'A1']]
            consts.pop('XSheet1!A1', None)
        return {'k': 'graph', 'cells': cells, 'consts': consts,
                'eval': d.choice(sorted(cells)), 'n': n}
    for i in range(n):
        me = NAMES[i]
        if d.pick(5) == 0:
            consts[me] = d.int(1, 9)
            continue
        refs = []
        for _ in range(d.int(1, 3)):
            if d.pick(4) == 0:
                a, b = sorted((d.pick(n), d.pick(n)))
                refs.append(['range', '%s:%s' % (NAMES[a], NAMES[b])])
            else:
                refs.append(['ref', NAMES[d.pick(n)]])
        cells[me] = refs
    if not cells:
        cells[NAMES[0]] = [['ref', NAMES[0]]]
        consts.pop(NAMES[0], None)
    case = {'k': 'graph', 'cells': cells, 'consts': consts,
            'eval': d.choice(sorted(cells)), 'n': n}
    k = d.pick(6)
    if k == 0:
        case['mode'] = 'pass'
    elif k == 1:
        case['mode'] = d.choice(['named', 'named2'])
    return case


def strategy(tier):
    return decoded(_build, min_size=24, max_size=64)


def budget(tier):
    return 6000 if tier == 'quick' else 400000


# ------------------------------------------------------------------ oracle

def _targets(ref):
    if ref[0] == 'ref':
        return [ref[1]]
    pre = ''
    body = ref[1]
    if '!' in body:
        pre, body = body.split('!')
        pre += '!'
    a, b = body.split(':')
    ra, rb = int(a[1:]), int(b[1:])
    return [pre + 'A%d' % r for r in range(min(ra, rb), max(ra, rb) + 1)]


def _full(c):
    return c if '!' in c else 'Sheet1!' + c


class _Cyc(Exception):
    pass


def simulate(cells, start):
    """memo-less path-based DFS as a correct detector would run it.
    returns (cyclic?, evaluate-call count)."""
    calls = [0]

    def rec(cell, path):
        calls[0] += 1
        if calls[0] > 2000000:
            raise OverflowError
        if cell not in cells:
            return
        done = set()
        for ref in cells[cell]:
            for t in _targets(ref):
                if t in done:
                    continue
                done.add(t)
                if t in path:
                    raise _Cyc()
                rec(t, path + [t])
    try:
        rec(start, [start])
        return False, calls[0]
    except _Cyc:
        return True, calls[0]


def ref_value(cells, consts, start):
    memo = {}

    def val(c):
        if c in memo:
            return memo[c]
        if c not in cells:
            v = consts.get(c, 0)
        else:
            v = 1
            for ref in cells[c]:
                for t in _targets(ref):
                    v += val(t)
        memo[c] = v
        return v
    return val(start)


def render(refs, own='Sheet1'):
    parts = []
    for r in refs:
        t = r[1]
        if '!' not in t and own != 'Sheet1':
            t = 'Sheet1!' + t
        parts.append(t if r[0] == 'ref' else 'SUM(%s)' % t)
    return '=' + '+'.join(parts) + '+1'


def render_pass(refs, own='Sheet1'):
    """pass-through formulas: the value is one of the referenced values
    UNCHANGED, so that a blank leaf keeps every cell above it blank, and
    every formula mentions its precedents more than once"""
    t = []
    for r in refs:
        x = _targets(r)[0]
        if '!' not in x and own != 'Sheet1':
            x = 'Sheet1!' + x
        t.append(x)
    if len(t) == 1:
        return '=IF(%s=%s,%s,%s)' % (t[0], t[0], t[0], t[0])
    if len(t) == 2:
        return '=IF(%s=%s,%s,%s)' % (t[0], t[1], t[0], t[1])
    return '=IF(%s=%s,%s,%s)' % (t[0], t[1], t[2], t[0])


def ref_value_pass(cells, consts, start):
    memo = {}

    def val(c):
        if c in memo:
            return memo[c]
        if c not in cells:
            v = consts.get(c)           # None: blank
        else:
            t = [_targets(r)[0] for r in cells[c]]
            if len(t) == 1:
                v = val(t[0])
            elif len(t) == 2:
                v = val(t[0]) if val(t[0]) == val(t[1]) else val(t[1])
            else:
                v = val(t[2]) if val(t[0]) == val(t[1]) else val(t[0])
        memo[c] = v
        return v
    return val(start)


class Budget(BaseException):
    pass


def run_limited(ev, addr, max_calls, max_depth):
    """evaluate under call/nesting budgets -> (outcome, detail, stats)"""
    xl = lib.lib()
    cls = xl.Evaluator
    orig = cls.evaluate
    st = {'calls': 0, 'depth': 0, 'maxdepth': 0}

    def wrapped(self, a, context=None):
        st['calls'] += 1
        st['depth'] += 1
        if st['depth'] > st['maxdepth']:
            st['maxdepth'] = st['depth']
        if st['calls'] > max_calls:
            raise Budget('calls')
        if st['depth'] > max_depth:
            raise Budget('depth')
        try:
            return orig(self, a, context)
        finally:
            st['depth'] -= 1
    cls.evaluate = wrapped
    try:
        try:
            v = ev.evaluate(addr)
            return 'value', norm(v), st
        except Budget as b:
            return 'budget', str(b), st
        except RecursionError as e:
            return 'budget', 'RecursionError', st
        except MemoryError:
            return 'budget', 'MemoryError', st
        except Exception as e:  # noqa: BLE001
            msg = str(e)
            return 'exception', msg, st
    finally:
        cls.evaluate = orig


def _reuse(case, res):
    xl = lib.lib()
    depth, cause, via = case['depth'], case['cause'], case['via']
    res.nontrivial = True
    res.labels = ('reuse', cause, via)
    d = {'Sheet1!B1': 1, 'Sheet1!C1': 10}
    # chain A1 -> A2 -> ... -> A<depth>; the last one fails while B1 is true
    for i in range(1, depth):
        d['Sheet1!A%d' % i] = '=A%d+1' % (i + 1)
    bad = {'unknown': 'NOSUCHFN(1)', 'pyerror': 'PYBOOM(1)',
           'cycle': 'A1'}[cause]
    d['Sheet1!A%d' % depth] = '=IF(B1,%s,7)' % bad
    d['Sheet1!D1'] = ('=A1+C1' if via == 'ref'
                      else '=SUM(A1:A%d)+C1' % depth)

    def boom(x):
        raise ZeroDivisionError('boom')
    m = lib.compile_dict(d)
    ns = xl.FUNCTIONS.copy()
    ns['PYBOOM'] = boom
    ev = xl.Evaluator(m, namespace=ns)
    o1, d1, _ = run_limited(ev, 'Sheet1!A1', 10000, depth + 20)
    if o1 != 'exception':
        res.fail('reuse:failure-not-reported:%s' % cause, 'an exception',
                 [o1, str(d1)[:200]], d)
        return res
    if cause == 'cycle' and 'cycle' not in d1.lower():
        res.fail('cycle-exception-without-cycle-report:reuse', 'cycle',
                 d1[:200], d)
        return res
    ev.set_cell_value('Sheet1!B1', 0)
    a1 = 7 + (depth - 1)
    want = {'Sheet1!D1': float((a1 if via == 'ref' else sum(
        7 + k for k in range(depth))) + 10), 'Sheet1!A1': float(a1)}
    for addr in ('Sheet1!D1', 'Sheet1!A1', 'Sheet1!D1'):
        o2, d2, _ = run_limited(ev, addr, 10000, depth + 20)
        if o2 == 'exception':
            b = 'reuse:bogus-cycle-after-failure' if 'cycle' in d2.lower() \
                else 'reuse:exception-after-cause-removed'
            res.fail('%s:%s' % (b, cause), ('N', want[addr]), d2[:300],
                     [addr, d])
            return res
        if o2 != 'value' or d2 != ('N', want[addr]):
            res.fail('reuse:wrong-value-after-failure:%s' % cause,
                     ('N', want[addr]), [o2, d2], [addr, d])
            return res
    return res


def _guarded(case, res):
    xl = lib.lib()
    n, pre = case['len'], case['pre']
    res.nontrivial = True
    res.labels = ('guarded',)
    # A1 = IF(G1>0, A<n>... cycle A1 -> A2 -> ... -> An -> A1 behind the guard
    d = {'Sheet1!G1': 0, 'Sheet1!A1': '=IF(G1>0,A%d,0)+1' % (2 if n > 1 else 1)}
    for i in range(2, n + 1):
        d['Sheet1!A%d' % i] = '=A%d+1' % (i + 1 if i < n else 1)
    d['Sheet1!D1'] = '=A1+10'
    cells = ['Sheet1!A%d' % i for i in range(1, n + 1)] + ['Sheet1!D1']
    m = lib.compile_dict(d)
    ev = xl.Evaluator(m)
    # guard closed: acyclic, A1 = 1, A_n = A1+1 (the chain runs backwards)
    for j, c in enumerate(cells):
        if pre >> j & 1:
            o, det, _ = run_limited(ev, c, 10000, n + 20)
            if o != 'value':
                b = 'acyclic-flagged-as-cycle' if 'cycle' in str(
                    det).lower() else 'guarded:closed-guard-fails'
                res.fail(b, 'a value', [o, str(det)[:200]], [c, d])
                return res
    ev.set_cell_value('Sheet1!G1', 1)
    for c in cells:
        o, det, st = run_limited(ev, c, 4 * (n + 3) + 16, n + 20)
        if o == 'value':
            res.fail('cycle-returns-value:guarded', 'an exception reporting '
                     'a cycle', det, [c, pre, d])
            return res
        if o == 'budget':
            res.fail('cycle-not-detected-within-budget:guarded',
                     'cycle report', [det, st], [c, pre, d])
            return res
        if 'cycle' not in det.lower():
            res.fail('cycle-exception-without-cycle-report:guarded',
                     'message mentioning a cycle', det[:300], [c, pre, d])
            return res
    return res


def _compile_named(d, every_second):
    """the same single-sheet model as a workbook in which the references
    are spelled as defined names (nm_A3 -> Sheet1!$A$3, rg_A1_A3 ->
    Sheet1!$A$1:$A$3)"""
    import os
    import re
    import tempfile
    from vf.gen import xlsxmin
    xl = lib.lib()
    names = {}
    count = [0]

    def sub(mo):
        count[0] += 1
        if every_second and count[0] % 2:
            return mo.group(0)
        a, b = mo.group(1), mo.group(3)
        if b:
            n = 'rg_%s_%s' % (a, b)
            names[n] = 'Sheet1!$%s$%s:$%s$%s' % (a[0], a[1:], b[0], b[1:])
        else:
            n = 'nm_%s' % a
            names[n] = 'Sheet1!$%s$%s' % (a[0], a[1:])
        return n
    cells = {}
    for a, v in d.items():
        a1 = a.split('!')[1]
        if isinstance(v, str) and v.startswith('='):
            f = re.sub(r'(?<![A-Za-z_!])([A-H]\d+)(:([A-H]\d+))?(?![\d(])',
                       sub, v[1:])
            cells[a1] = {'kind': 'f', 'f': f, 'cached': None}
        else:
            cells[a1] = {'kind': 'n', 'v': v}
    fd, fn = tempfile.mkstemp(prefix='vf_c06_', suffix='.xlsx')
    os.close(fd)
    try:
        xlsxmin.write(fn, {'sheets': [{'name': 'Sheet1', 'cells': cells}],
                           'names': [{'name': n, 'ref': r}
                                     for n, r in sorted(names.items())]})
        return xl.ModelCompiler().read_and_parse_archive(fn)
    finally:
        os.remove(fn)


def _wide(case, res):
    from vf.ref.refeval import num_to_col
    xl = lib.lib()
    w, n, end = case['width'], case['depth'], case['end']
    res.nontrivial = True
    res.labels = ('wide-ladder', end, 'width>=128' if w >= 128
                  else 'width<128')
    d = {}
    last = num_to_col(2 + w)
    for i in range(1, n + 1):
        d['Sheet1!A%d' % i] = '=A%d+SUM(C%d:%s%d)+A%d' % (
            i + 1, i, last, i, i + 1)
        for c in range(3, 3 + w):
            d['Sheet1!%s%d' % (num_to_col(c), i)] = 1
    d['Sheet1!A%d' % (n + 1)] = {'value': 1, 'unknown': '=NOSUCHFN(1)',
                                 'cycle': '=A1+1'}[end]
    m = lib.compile_dict(d)
    ev = xl.Evaluator(m)
    import sys
    sys.setrecursionlimit(max(sys.getrecursionlimit(), 20000))
    linear = n * (w + 1) + 2
    o, det, st = run_limited(ev, 'Sheet1!A1', 4 * linear + 16, n + 20)
    if o == 'budget':
        res.fail('wide-ladder-exceeds-linear-work:%s' % end,
                 {'max_calls': 4 * linear + 16}, [det, st], [w, n])
        return res
    if end == 'value':
        v = 1
        for _ in range(n):
            v = 2 * v + w
        if o != 'value' or det != ('N', float(v)):
            res.fail('wide-ladder-wrong-value', ('N', float(v)),
                     [o, str(det)[:200]], [w, n])
    elif o != 'exception':
        res.fail('wide-ladder-failure-not-reported:%s' % end,
                 'an exception', [o, str(det)[:200]], [w, n])
    elif end == 'cycle' and 'cycle' not in det.lower():
        res.fail('cycle-exception-without-cycle-report:wide', 'cycle',
                 det[:200], [w, n])
    return res


def _big(case, res):
    xl = lib.lib()
    n, shape = case['n'], case['shape']
    res.nontrivial = True
    res.labels = ('big-acyclic', shape)
    if shape == 'sum':
        d = {'Sheet1!B1': 3, 'Sheet1!C1': '=SUM(A1:A%d)' % n}
        for i in range(1, n + 1):
            d['Sheet1!A%d' % i] = '=B1*2'
        start, want = 'Sheet1!C1', float(6 * n)
    else:
        d = {'Sheet1!A%d' % (n + 1): 1, 'Sheet1!B%d' % (n + 1): 1}
        for i in range(1, n + 1):
            d['Sheet1!A%d' % i] = '=A%d+B%d' % (i + 1, i + 1)
            d['Sheet1!B%d' % i] = '=A%d+B%d' % (i + 1, i + 1)
        start, want = 'Sheet1!A1', float(2 ** n)
    m = lib.compile_dict(d)
    ev = xl.Evaluator(m)
    try:
        o = norm(ev.evaluate(start))
    except Exception as e:  # noqa: BLE001
        msg = str(e)
        res.fail('acyclic-flagged-as-cycle:big' if 'cycle' in msg.lower()
                 else 'acyclic-exception:big', ('N', want), msg[:200],
                 [shape, n])
        return res
    if o != ('N', want):
        res.fail('acyclic-wrong-value:big', ('N', want), o, [shape, n])
    return res


def judge(case):
    res = Result()
    if case['k'] == 'big':
        return _big(case, res)
    if case['k'] == 'wide':
        return _wide(case, res)
    if case['k'] == 'guarded':
        return _guarded(case, res)
    if case['k'] == 'faildepth':
        return _faildepth(case, res)
    if case['k'] == 'reuse':
        return _reuse(case, res)
    xl = lib.lib()
    cells, consts = case['cells'], case.get('consts', {})
    start = case['eval']
    d = {}
    passmode = case.get('mode') == 'pass'
    if passmode:
        # references only (a range stands for its first cell)
        cells = {c: [['ref', _targets(r)[0]] for r in refs]
                 for c, refs in cells.items()}
    condmode = case.get('mode') == 'cond'
    for c, refs in cells.items():
        d[_full(c)] = (render_pass if passmode else render)(
            refs, _full(c).split('!')[0])
        if case.get('mode') == 'pct':
            d[_full(c)] = '=' + '+'.join(
                (p if p == '1' else p + '*100%')
                for p in d[_full(c)][1:].split('+'))
        if case.get('mode') == 'errleft':
            d[_full(c)] = '=XE9+' + d[_full(c)][1:]
            d['Sheet1!XE9'] = '=1/0'
        if condmode:
            # =IF(<sum of the references>+1>0,1,2): with positive constants
            # every acyclic cell is 1
            d[_full(c)] = '=IF(%s>0,1,2)' % d[_full(c)][1:]
    for c, v in consts.items():
        d[_full(c)] = v
    try:
        cyclic, sim_calls = simulate(cells, start)
    except OverflowError:
        return res
    if passmode and cyclic:
        # IF is lazy: whether the cycle is reached depends on values
        res.labels = ('pass-through', 'cyclic-not-judged')
        return res
    try:
        if case.get('mode') in ('named', 'named2'):
            m = _compile_named(d, case['mode'] == 'named2')
        else:
            m = lib.compile_dict(d)
        ev = xl.Evaluator(m)
    except Exception as err:  # noqa: BLE001
        t = exc_tag(err)
        res.fail('compile-exception:%s:%s' % (t[1], t[2]), 'model', t, d)
        return res
    ncells = len(set(cells) | set(consts)) + 12
    if ncells > 60:
        import sys
        sys.setrecursionlimit(max(sys.getrecursionlimit(), 20000))
    outcome, detail, st = run_limited(
        ev, _full(start), 4 * sim_calls + 16, ncells + 2)
    has_range = any(r[0] == 'range' for refs in cells.values() for r in refs)
    res.labels = ('cyclic' if cyclic else 'acyclic',
                  'range' if has_range else 'refs-only')
    if case.get('mode') in ('named', 'named2'):
        res.labels += ('through-defined-names',)
    if cyclic:
        res.nontrivial = True
        kind = 'through-range' if has_range else 'plain'
        if outcome == 'value':
            res.fail('cycle-returns-value:%s' % kind, 'an exception '
                     'reporting a cycle', detail, d)
        elif outcome == 'budget':
            res.fail('cycle-not-detected-within-budget:%s' % kind,
                     {'max_calls': 4 * sim_calls + 16,
                      'max_depth': ncells + 2}, [detail, st], d)
        elif 'cycle' not in detail.lower():
            res.fail('cycle-exception-without-cycle-report:%s' % kind,
                     'message mentioning a cycle', detail[:300], d)
        return res
    # acyclic
    if passmode:
        v = ref_value_pass(cells, consts, start)
        want = ('Z',) if v is None else ('N', float(v))
        res.labels += ('pass-through', 'blank' if v is None else 'number')
    elif condmode:
        want = ('N', 1.0)
        res.labels += ('in-if-condition',)
    elif case.get('mode') == 'errleft':
        want = ('E', '#DIV/0!')
        res.labels += ('error-left-operand',)
    else:
        want = ('N', float(ref_value(cells, consts, start)))
    shared = sim_calls > len(set(cells) | set(consts)) + 1
    res.nontrivial = shared
    if outcome == 'exception':
        b = 'acyclic-flagged-as-cycle' if 'cycle' in detail.lower() \
            else 'acyclic-exception'
        res.fail(b, want, detail[:300], d)
    elif outcome == 'budget':
        res.fail('acyclic-exceeds-budget', want, [detail, st], d)
    elif detail != want:
        res.fail('acyclic-wrong-value', want, detail, d)
    return res


def _faildepth(case, res):
    xl = lib.lib()
    kind = case['kind']
    res.nontrivial = True
    res.labels = ('faildepth', kind)

    def boom(x):
        raise ZeroDivisionError('boom')
    prev = None
    series = []
    for k in (2, 4, 8, 16, 32):
        d = {}
        for i in range(1, k):
            d['Sheet1!A%d' % i] = '=A%d+1' % (i + 1)
        d['Sheet1!A%d' % k] = '=NOSUCHFN(1)' if kind == 'unknown' \
            else '=PYBOOM(1)'
        m = lib.compile_dict(d)
        ns = xl.FUNCTIONS.copy()
        ns['PYBOOM'] = boom
        ev = xl.Evaluator(m, namespace=ns)
        outcome, detail, st = run_limited(ev, 'Sheet1!A1', 100000, k + 3)
        if outcome != 'exception':
            res.fail('failure-not-reported:%s' % outcome,
                     'an exception', [outcome, str(detail)[:200], st], k)
            return res
        L, calls = len(detail), st['calls']
        series.append([k, L, calls])
        if prev is not None:
            pk, pL, pcalls = prev
            if L > 8 * pL + 4096:
                res.fail('failure-message-grows-superpolynomially',
                         'L(2k) <= 8 L(k) + 4096', series)
                return res
            if calls > 8 * pcalls + 64:
                res.fail('failure-work-grows-superpolynomially',
                         'calls(2k) <= 8 calls(k) + 64', series)
                return res
        if L > 4000000:
            break
        prev = (k, L, calls)
    return res
