"""C03 - references denote exactly the addressed cells on the right sheet."""
import importlib
import os
import shutil
import tempfile

from vf.core.runner import Result
from vf.core import lib
from vf.core.norm import exc_tag, close
from vf.gen.decode import decoded
from vf.gen import xlsxmin
from vf.ref import refeval as R

ID = 'C03'
LEVEL = 'exploration'
RULE = ('sampled (Hypothesis-decoded) workbooks of 1-4 sheets (names plain, '
        'with blanks, apostrophe, hyphen, digits first, non-ASCII), each a '
        'sparse grid within A1:DZ300 of pairwise distinct numbers plus a few '
        'texts, built through BOTH entry points (generated .xlsx + '
        'read_and_parse_archive; read_and_parse_dict with qualified '
        'addresses); probe cells on every sheet: =REF for every spelling of '
        'one target (A1 $A$1 $A1 A$1 Sheet!A1 \'Sheet\'!A1), =SUM/COUNT/'
        'COUNTA(R) for rectangles from 1x1 to the used area incl. rows and '
        'columns with gaps of 1, 99, 100, 101 and 250 blanks and rectangles '
        'of more than 256 cells, formulas through defined names bound to '
        'cells and to ranges, cross-sheet chains whose inner references are '
        'unqualified, references to empty cells and to cells of other kinds '
        '(booleans, zeros, integer-valued floats, numeric text, values '
        'produced by formulas), where the KIND of the value read is part of '
        'the comparison; enumerated: col2num/num2col '
        'for all 16384 columns, resolve_ranges for a table of rectangles, whole-'
        'row references (n:n, $n:$m, qualified or not) over rows with values '
        'in the first and in the last columns (XFD, XFE, ZZY, ZZZ).  '
        'Oracle: the generator\'s own grid and a 20-line A1 resolver.  '
        'Non-trivial = target on another sheet or a non-plain spelling, or a '
        'rectangle with >= 2 rows and columns or a blank gap, or a name or a '
        'chain of length >= 2; distinct by (workbook, probe).')
ASSUMPTIONS = [
    'numeric text and booleans inside ranges, whole-column references '
    '(A:A costs the library 1048576 cell objects and about 40 s each; '
    'whole rows are enumerated instead) and the union/intersection '
    'operators are not generated',
    'the .xlsx files are written by vf/gen/xlsxmin.py (checked against '
    'openpyxl on every run: a mis-written file fails the load)',
]
CASE_LIMIT_S = 60

SHEETS = ['Sheet1', 'Data', 'My Sheet', "It's", 'Q-1', u'Blätter', '2024',
          'S_2']
TMP = [None]


def tmpdir():
    if TMP[0] is None:
        TMP[0] = tempfile.mkdtemp(prefix='vf_c03_')
        import atexit
        atexit.register(shutil.rmtree, TMP[0], True)
    return TMP[0]


def needs_quote(name):
    return not (name.replace('_', 'a').isalnum() and name.isascii()
                and not name[0].isdigit())


def q(name, force=False):
    if needs_quote(name) or force:
        return "'" + name.replace("'", "''") + "'"
    return name


def col(n):
    return R.num_to_col(n)


def _sheet_cells(d, si):
    """sparse grid: distinct numbers, a few texts."""
    cells = {}
    base = 1000 * (si + 1)
    k = 0
    # a dense block
    h, w = d.int(1, 5), d.int(1, 4)
    r0, c0 = d.int(1, 6), d.int(1, 5)
    for r in range(r0, r0 + h):
        for c in range(c0, c0 + w):
            t = d.pick(8)
            k += 1
            if t == 0:
                continue
            if t == 1:
                cells['%s%d' % (col(c), r)] = 'txt%d' % k
            else:
                cells['%s%d' % (col(c), r)] = base + k + (0.5 if t == 2
                                                          else 0)
    # a column and a row with long gaps
    gap = d.choice([1, 99, 100, 101, 250])
    cc = d.int(8, 12)
    r = 1
    for i in range(d.int(2, 4)):
        k += 1
        cells['%s%d' % (col(cc), r)] = base + 100 + k
        r += gap + 1
        if r > 600:
            break
    gap2 = d.choice([1, 99, 100, 101, 120])
    rr = d.int(12, 20)
    c = 1
    for i in range(d.int(2, 3)):
        k += 1
        cells['%s%d' % (col(c), rr)] = base + 200 + k
        c += gap2 + 1
    cells.setdefault('A1', base)
    return cells, (cc, gap), (rr, gap2)


def _rect(d, cells, colgap, rowgap):
    k = d.pick(6)
    if k == 0:
        cc, gap = colgap
        n = d.int(2, 3)
        return (1, cc, 1 + n * (gap + 1), cc)
    if k == 1:
        rr, gap = rowgap
        return (rr, 1, rr, 1 + d.int(1, 2) * (gap + 1) + 1)
    if k == 2:
        # more than 256 cells
        return (1, 1, d.int(20, 40), d.int(14, 20))
    keys = sorted(cells)
    a = d.choice(keys)
    b = d.choice(keys)
    ca, ra = R.split_a1(a)
    cb, rb = R.split_a1(b)
    r1, r2 = sorted((ra, rb))
    c1, c2 = sorted((R.col_to_num(ca), R.col_to_num(cb)))
    if (r2 - r1 + 1) * (c2 - c1 + 1) > 1200:
        r2 = r1 + 5
    return (r1, c1, r2, c2)


def _fold(cells, rect):
    r1, c1, r2, c2 = rect
    s, n, na = 0, 0, 0
    for a, v in cells.items():
        cc, rr = R.split_a1(a)
        cn = R.col_to_num(cc)
        if r1 <= rr <= r2 and c1 <= cn <= c2:
            na += 1
            if not isinstance(v, str):
                s += v
                n += 1
    return s, n, na


KINDS = [
    [True, ['B', True]], [False, ['B', False]], [0, ['N', 0.0]],
    [-0.0, ['N', 0.0]], [2.0, ['N', 2.0]], [1, ['N', 1.0]],
    ['12', ['T', '12']], ['TRUE', ['T', 'TRUE']], ['1e3', ['T', '1e3']],
    [u'\xe9\xdf', ['T', u'\xe9\xdf']],
    ['=1=1', ['B', True]], ['=1=2', ['B', False]], ['=3*4', ['N', 12.0]],
    ['="a"&"b"', ['T', 'ab']], ['=0*5', ['N', 0.0]], ['=1&2', ['T', '12']],
]


def _dollar(d, a1):
    cc, rr = R.split_a1(a1)
    k = d.pick(4)
    return [a1, '$%s$%d' % (cc, rr), '$%s%d' % (cc, rr),
            '%s$%d' % (cc, rr)][k]


def _build(d):
    nsheets = d.int(1, 4)
    names = []
    pool = list(SHEETS)
    first = d.choice(['Sheet1', 'Sheet1', 'My Sheet', "It's"])
    pool.remove(first)
    for i in range(nsheets):
        names.append(pool.pop(d.pick(len(pool))) if i else first)
    sheets = []
    for i, n in enumerate(names):
        cells, cg, rg = _sheet_cells(d, i)
        # other KINDS of cell content, far away from every rectangle (row
        # 900+): booleans, zeros, integer-valued floats, numeric text, text
        # spelling a boolean, values produced by formulas.  Only single
        # references aim at them: [address, content, expected value]
        kinds = []
        for j in range(d.pick(4)):
            kinds.append(['%s%d' % (col(d.int(1, 30)), 900 + 7 * j + i)] +
                         d.choice(KINDS))
        sheets.append({'name': n, 'cells': cells, 'cg': cg, 'rg': rg,
                       'kinds': kinds})
    path = 'xlsx' if d.pick(2) else 'dict'
    wbnames = []
    if path == 'xlsx' and d.pick(2):
        for j in range(d.int(1, 3)):
            sh = d.choice(sheets)
            if d.pick(2):
                a = d.choice(sorted(sh['cells']))
                cc, rr = R.split_a1(a)
                wbnames.append({'name': 'NmCell%d' % j, 'kind': 'cell',
                                'sheet': sh['name'], 'a1': a,
                                'ref': '%s!$%s$%d' % (q(sh['name']), cc, rr)})
            else:
                rect = _rect(d, sh['cells'], sh['cg'], sh['rg'])
                r1, c1, r2, c2 = rect
                if (r2 - r1 + 1) * (c2 - c1 + 1) > 400 or (
                        r1 == r2 and c1 == c2):
                    rect = (1, 1, 6, 5)
                    r1, c1, r2, c2 = rect
                wbnames.append({'name': 'NmRng%d' % j, 'kind': 'range',
                                'sheet': sh['name'], 'rect': list(rect),
                                'ref': '%s!$%s$%d:$%s$%d' % (
                                    q(sh['name']), col(c1), r1, col(c2),
                                    r2)})
    probes = []
    for si, sh in enumerate(sheets):
        for _ in range(d.int(2, 6)):
            k = d.pick(10)
            tsh = sh if d.pick(3) else d.choice(sheets)
            same = tsh is sh
            if k < 3:
                # single reference, some spelling
                kind_cell = False
                if d.pick(6) == 0:
                    a = 'ZX299'     # an empty cell
                    want = ['Z']
                elif tsh['kinds'] and d.pick(3) == 0:
                    a, _, want = d.choice(tsh['kinds'])
                    kind_cell = True
                else:
                    a = d.choice(sorted(tsh['cells']))
                    v = tsh['cells'][a]
                    want = ['T', v] if isinstance(v, str) else ['N',
                                                                float(v)]
                body = _dollar(d, a)
                qual = (not same) or d.pick(3) == 0
                text = (q(tsh['name'], force=d.pick(4) == 0) + '!' + body
                        if qual else body)
                feats = ['ref']
                if '$' in body:
                    feats.append('dollar')
                if qual:
                    feats.append('quoted-sheet' if "'" in text.split('!')[0]
                                 else 'qualified')
                if not same:
                    feats.append('other-sheet')
                if want == ['Z']:
                    feats.append('empty-cell')
                if kind_cell:
                    feats.append('kind')
                probes.append({'sheet': sh['name'], 'f': '=' + text,
                               'want': want, 'feats': feats})
            elif k < 7:
                rect = _rect(d, tsh['cells'], tsh['cg'], tsh['rg'])
                r1, c1, r2, c2 = rect
                a, b = '%s%d' % (col(c1), r1), '%s%d' % (col(c2), r2)
                if d.pick(4) == 0:
                    a, b = _dollar(d, a), _dollar(d, b)
                body = a + ':' + b
                qual = (not same) or d.pick(4) == 0
                text = (q(tsh['name']) + '!' + body) if qual else body
                s, n, na = _fold(tsh['cells'], rect)
                fn = d.choice(['SUM', 'SUM', 'COUNT', 'COUNTA', 'CONCAT'])
                ncell = (r2 - r1 + 1) * (c2 - c1 + 1)
                if fn == 'CONCAT' and ncell > 60:
                    fn = 'SUM'
                if fn == 'CONCAT':
                    # order-sensitive consumer: the rectangle's cells in
                    # row-major order (blank cells contribute nothing)
                    txt = ''
                    for rr_ in range(r1, r2 + 1):
                        for cc_ in range(c1, c2 + 1):
                            v = tsh['cells'].get('%s%d' % (col(cc_), rr_))
                            if v is None:
                                continue
                            txt += v if isinstance(v, str) else (
                                str(v) if v != int(v) else str(int(v)))
                    body2 = a + ':' + b
                    qual2 = (not same) or d.pick(4) == 0
                    probes.append({
                        'sheet': sh['name'],
                        'f': '=CONCAT(%s)' % ((q(tsh['name']) + '!' + body2)
                                              if qual2 else body2),
                        'want': ['T', txt],
                        'feats': ['range', 'CONCAT'] + (
                            ['other-sheet'] if not same else [])})
                    continue
                want = {'SUM': s, 'COUNT': n, 'COUNTA': na}[fn]
                feats = ['range', fn]
                if ncell > 256:
                    feats.append('>256-cells')
                maxgap = max(tsh['cg'][1] if c1 <= tsh['cg'][0] <= c2
                             and r2 - r1 > tsh['cg'][1] else 0,
                             tsh['rg'][1] if r1 <= tsh['rg'][0] <= r2
                             and c2 - c1 > tsh['rg'][1] else 0)
                if maxgap >= 100:
                    feats.append('gap>=100')
                elif ncell > na:
                    feats.append('has-blanks')
                if '$' in body:
                    feats.append('dollar')
                if not same:
                    feats.append('other-sheet')
                elif sh['name'] != sheets[0]['name'] and not qual:
                    feats.append('unqualified-on-nondefault-sheet')
                probes.append({'sheet': sh['name'],
                               'f': '=%s(%s)' % (fn, text),
                               'want': ['N', float(want)], 'feats': feats})
            elif k < 8 and wbnames:
                nm = d.choice(wbnames)
                tcells = [s_ for s_ in sheets
                          if s_['name'] == nm['sheet']][0]['cells']
                if nm['kind'] == 'cell':
                    v = tcells[nm['a1']]
                    if isinstance(v, str):
                        probes.append({'sheet': sh['name'],
                                       'f': '=%s&"!"' % nm['name'],
                                       'want': ['T', v + '!'],
                                       'feats': ['name', 'name-cell']})
                    else:
                        probes.append({'sheet': sh['name'],
                                       'f': '=%s*2' % nm['name'],
                                       'want': ['N', float(v) * 2],
                                       'feats': ['name', 'name-cell']})
                else:
                    s, n, na = _fold(tcells, tuple(nm['rect']))
                    probes.append({'sheet': sh['name'],
                                   'f': '=SUM(%s)+1' % nm['name'],
                                   'want': ['N', float(s) + 1],
                                   'feats': ['name', 'name-range']})
            elif k == 8 or len(sheets) == 1:
                # several references in ONE formula: a (possibly foreign,
                # qualified) reference followed by unqualified ones, which
                # still mean the formula's own sheet
                parts, total, feats = [], 0.0, ['mixed']
                for j in range(d.int(2, 3)):
                    t2 = d.choice(sheets) if j == 0 or d.pick(3) == 0 else sh
                    own = t2 is sh
                    qual2 = (not own) or d.pick(4) == 0
                    pre = (q(t2['name']) + '!') if qual2 else ''
                    if d.pick(2):
                        rect = _rect(d, t2['cells'], t2['cg'], t2['rg'])
                        r1, c1, r2, c2 = rect
                        if (r2 - r1 + 1) * (c2 - c1 + 1) > 300:
                            rect = (1, 1, 6, 5)
                            r1, c1, r2, c2 = rect
                        s_, n_, na_ = _fold(t2['cells'], rect)
                        parts.append('SUM(%s%s%d:%s%d)' % (
                            pre, col(c1), r1, col(c2), r2))
                        total += s_
                        feats.append('range-other' if not own else
                                     'range-own')
                    else:
                        nums = sorted(a for a, v in t2['cells'].items()
                                      if not isinstance(v, str))
                        a = d.choice(nums)
                        parts.append(pre + a)
                        total += t2['cells'][a]
                        feats.append('cell-other' if not own else 'cell-own')
                probes.append({'sheet': sh['name'],
                               'f': '=' + '+'.join(parts),
                               'want': ['N', float(total)], 'feats': feats})
            elif len(sheets) > 1:
                # chain: here -> other!helper (unqualified inside) -> back
                osh = d.choice([s_ for s_ in sheets if s_ is not sh])
                nums_o = sorted(a for a, v in osh['cells'].items()
                                if not isinstance(v, str))
                nums_h = sorted(a for a, v in sh['cells'].items()
                                if not isinstance(v, str))
                if not nums_o or not nums_h:
                    continue
                ao, ah = d.choice(nums_o), d.choice(nums_h)
                helper = 'ZY%d' % (len(probes) + 1)
                inner = '=%s*2+%s!%s' % (ao, q(sh['name']), ah)
                want = (osh['cells'][ao] * 2 + sh['cells'][ah]) \
                    + sh['cells'][ah] - osh['cells'][ao]
                probes.append({
                    'sheet': sh['name'],
                    'f': '=%s!%s+%s-%s!%s' % (q(osh['name']), helper, ah,
                                              q(osh['name']), ao),
                    'want': ['N', float(want)],
                    'helpers': [[osh['name'], helper, inner]],
                    'feats': ['chain']})
    return {'k': 'wb', 'path': path, 'names': wbnames,
            'sheets': [{'name': s['name'], 'cells': s['cells'],
                        'kinds': s['kinds']}
                       for s in sheets], 'probes': probes}


def strategy(tier):
    return decoded(_build, min_size=64, max_size=420)


def budget(tier):
    return 2400 if tier == 'quick' else 100000


def enumerate_cases(tier, shard=0, nshards=1):
    per = 16384 // nshards + 1
    yield {'k': 'cols', 'lo': shard * per + 1,
           'hi': min(16384, (shard + 1) * per)}
    rects = ['A1:A1', 'B2:D5', 'A1:C1', 'A1:A4', 'Z9:AB11', 'AZ1:BB2',
             'XFC1:XFD3', 'A100:B102', '$A$1:$C$3', 'A$1:$B2',
             'Sheet2!B2:C4', "'My Sheet'!A1:B2", "'It''s'!$A$1:$B$2",
             'Data!Z1:AA3', 'C3:C3', 'A1:J10']
    for i, r in enumerate(rects):
        if i % nshards == shard:
            yield {'k': 'resolve', 'range': r}
    # whole-row references: every cell of the row up to the library's last
    # column (utils.MAX_COL = ZZZ) is a member, the last one included
    for i, case in enumerate(_whole_rows()):
        if (i + 5) % nshards == shard:
            yield case


def _whole_rows():
    data = {'A10': 1, 'C10': 2, 'ZZZ10': 4, 'B11': 8, 'ZZY11': 16,
            'ZZZ11': 32, 'A12': 'x', 'XFD12': 64, 'XFE12': 128}
    for path in ('dict', 'xlsx'):
        for dname in ('Data', 'My Sheet'):
            dq = q(dname)
            probes = [
                (dname, '=SUM(10:10)', 7.0),
                (dname, '=SUM($10:$11)', 63.0),
                ('Sheet1', '=SUM(%s!10:10)' % dq, 7.0),
                ('Sheet1', '=SUM(%s!$10:$11)' % dq, 63.0),
                ('Sheet1', '=COUNT(%s!11:11)' % dq, 3.0),
                ('Sheet1', '=SUM(%s!12:12)' % dq, 192.0),
                ('Sheet1', '=COUNTA(%s!10:12)' % dq, 9.0),
                ('Sheet1', '=MAX(%s!11:$11)' % dq, 32.0),
            ]
            yield {'k': 'wb', 'path': path, 'names': [],
                   'sheets': [{'name': 'Sheet1', 'cells': {'A1': 5},
                               'kinds': []},
                              {'name': dname, 'cells': dict(data),
                               'kinds': []}],
                   'probes': [{'sheet': sh, 'f': f, 'want': ['N', w],
                               'feats': ['range', 'whole-row', 'has-blanks',
                                         '>256-cells'] + (
                                   ['dollar'] if '$' in f else [])}
                              for sh, f, w in probes]}


# ------------------------------------------------------------------- judge

def judge(case):
    res = Result()
    k = case['k']
    if k == 'cols':
        return _cols(case, res)
    if k == 'resolve':
        return _resolve(case, res)
    return _wb(case, res)


def _cols(case, res):
    lib.lib()
    tk = importlib.import_module('xlcalculator.tokenizer')
    res.nontrivial = True
    res.labels = ('cols',)
    for n in range(case['lo'], case['hi'] + 1):
        c = R.num_to_col(n)
        try:
            got = tk.num2col(n)
            back = tk.col2num(c)
            back2 = tk.col2num('$' + c)
        except Exception as err:  # noqa: BLE001
            res.fail('column-arithmetic-exception', c, exc_tag(err), n)
            return res
        if got != c or back != n or back2 != n:
            res.fail('column-arithmetic', [c, n], [got, back, back2], n)
            return res
    return res


def _resolve(case, res):
    lib.lib()
    u = importlib.import_module('xlcalculator.utils')
    text = case['range']
    res.nontrivial = True
    res.labels = ('resolve',)
    sheet = 'Sheet1'
    body = text
    if '!' in text:
        sq, body = text.rsplit('!', 1)
        sheet = sq[1:-1].replace("''", "'") if sq.startswith("'") else sq
    want = [[sheet + '!' + a for a in row] for row in R.range_cells(body)]
    try:
        got_sheet, got = u.resolve_ranges(text)
    except Exception as err:  # noqa: BLE001
        res.fail('resolve_ranges-exception:%s' % (
            'dollar' if '$' in text else 'plain'), want[:2], exc_tag(err),
            text)
        return res
    if got != want or got_sheet != sheet:
        res.fail('resolve_ranges:%s' % ('dollar' if '$' in text else (
            'sheet' if '!' in text else 'plain')), want[:3], got[:3], text)
    return res


def _load(case):
    xl = lib.lib()
    sheets, probes = case['sheets'], case['probes']
    paddr = []
    if case['path'] == 'xlsx':
        wb = {'sheets': [], 'names': [{'name': n['name'], 'ref': n['ref']}
                                      for n in case['names']]}
        per = {s['name']: {} for s in sheets}
        for s in sheets:
            for a, v in list(s['cells'].items()) + [
                    (k[0], k[1]) for k in s.get('kinds', [])]:
                if isinstance(v, str) and v.startswith('='):
                    per[s['name']][a] = {'kind': 'f', 'f': v[1:]}
                elif isinstance(v, bool):
                    per[s['name']][a] = {'kind': 'b', 'v': v}
                else:
                    per[s['name']][a] = ({'kind': 'inlineStr', 'v': v}
                                         if isinstance(v, str)
                                         else {'kind': 'n', 'v': v})
        for i, p in enumerate(probes):
            a = 'ZZ%d' % (i + 1)
            per[p['sheet']][a] = {'kind': 'f', 'f': p['f'][1:]}
            paddr.append(p['sheet'] + '!' + a)
            for hs, ha, hf in p.get('helpers', []):
                per[hs][ha] = {'kind': 'f', 'f': hf[1:]}
        for s in sheets:
            wb['sheets'].append({'name': s['name'], 'cells': per[s['name']]})
        fn = os.path.join(tmpdir(), 'wb%d.xlsx' % os.getpid())
        xlsxmin.write(fn, wb)
        try:
            model = xl.ModelCompiler().read_and_parse_archive(fn)
        finally:
            try:
                os.remove(fn)
            except OSError:
                pass
    else:
        d = {}
        for s in sheets:
            for a, v in s['cells'].items():
                d[s['name'] + '!' + a] = v
            for a, v, _ in s.get('kinds', []):
                d[s['name'] + '!' + a] = v
        for i, p in enumerate(probes):
            a = p['sheet'] + '!ZZ%d' % (i + 1)
            d[a] = p['f']
            paddr.append(a)
            for hs, ha, hf in p.get('helpers', []):
                d[hs + '!' + ha] = hf
        # (lib.compile_dict varies the ARRANGEMENT of the dictionary)
        model = lib.compile_dict(d, default_sheet=sheets[0]['name'])
    return model, paddr


def _wb(case, res):
    xl = lib.lib()
    res.labels = ('wb', case['path'], 'sheets:%d' % len(case['sheets']))
    try:
        model, paddr = _load(case)
        ev = xl.Evaluator(model)
    except Exception as err:  # noqa: BLE001
        t = exc_tag(err)
        feats = sorted({f for p in case['probes'] for f in p['feats']})
        res.fail('load-exception:%s:%s:%s' % (case['path'], t[1], t[2]),
                 'model', t, [p['f'] for p in case['probes']][:6])
        return res
    nt = False
    for p, a in zip(case['probes'], paddr):
        want = tuple(p['want'])
        obs = lib.evaluate(model, a, ev)
        feats = p['feats']
        if set(feats) & {'dollar', 'other-sheet', 'quoted-sheet', 'name',
                         'kind',
                         'chain', 'mixed', 'gap>=100', 'has-blanks', '>256-cells',
                         'qualified'}:
            nt = True
        if not close(obs, want, rel=1e-12):
            key = [f for f in ('name-range', 'name-cell', 'chain', 'mixed',
                               'kind', 'whole-row', '>256-cells', 'gap>=100', 'dollar',
                               'unqualified-on-nondefault-sheet',
                               'quoted-sheet', 'other-sheet', 'empty-cell')
                   if f in feats]
            kind = feats[0] + (':' + feats[1] if feats[0] == 'range' else '')
            b = '%s:%s:%s' % (kind, key[0] if key else 'plain', case['path'])
            if obs[0] == 'X':
                b += ':exception:' + obs[1]
            res.fail(b, list(want), obs,
                     [p['sheet'], p['f'], p.get('helpers')])
    res.nontrivial = nt
    return res
