"""C16 - math and rounding functions agree with exact / IEEE references."""
import math
from decimal import (Decimal, ROUND_HALF_UP, ROUND_UP, ROUND_DOWN,
                     ROUND_FLOOR, localcontext)
from fractions import Fraction

from vf.core.runner import Result
from vf.core import lib
from vf.core.norm import ulps
from vf.gen.decode import decoded

ID = 'C16'
LEVEL = 'exploration'
RULE = ('sampled (Hypothesis-decoded): numbers built as DECIMAL STRINGS with '
        '1-15 significant digits (ties such as 2.675, 1.005, 0.285 by '
        'construction), magnitudes across the double range, digit counts '
        '-10..10, all sign combinations of (number, significance) with '
        'significances 1 2 3 0.1 0.05 0.3 7 0.001 ...; domain boundaries of '
        'every function (0, +-1, just inside/outside, huge); direct calls '
        'xl.FUNCTIONS[f] and formulas =F(args).  Oracle: decimal/fractions '
        'for the rounding family (result == float(reference)), math module '
        'for elementary functions (<= 8 ulp), exact integer products for '
        'FACT/FACTDOUBLE; outside the domain the result must be an '
        'ExcelError (NaN, inf, escaping exceptions are violations).  '
        'Non-trivial = rounding with a non-zero dropped part, ties, negative '
        'digit counts, arguments at a domain edge; distinct by (function, '
        'arguments, mode).')
ASSUMPTIONS = [
    'rounding reference: Decimal(repr(x)) quantised in Excel\'s direction; '
    'CEILING/FLOOR: significance * ceil|floor(x / significance) in exact '
    'fractions of the shortest representations',
    '0^0, ATAN2(0,0), FACT(171), FACTDOUBLE of negatives, negative fractions under FACT, significance 0, '
    'non-integer digit counts are not generated',
]

ROUNDERS = ['ROUND', 'ROUNDUP', 'ROUNDDOWN', 'TRUNC', 'INT', 'CEILING',
            'FLOOR', 'EVEN']
ELEM = ['ABS', 'SIGN', 'SQRT', 'EXP', 'LN', 'LOG', 'LOG10', 'SIN', 'COS',
        'TAN', 'ASIN', 'ACOS', 'ATAN', 'ATAN2', 'ACOSH', 'ASINH', 'COSH',
        'DEGREES', 'RADIANS', 'POWER', 'CARET', 'MOD', 'FACT', 'FACTDOUBLE',
        'PI']


# ------------------------------------------------------------- generators

def _decimal_string(d, maxint=12):
    nd = d.int(1, 15)
    digs = ''.join(str(d.pick(10)) for _ in range(nd)).lstrip('0') or '0'
    point = d.pick(min(len(digs), maxint) + 1)   # digits before the point
    if d.chance(1, 4):
        digs = digs[:-1] + '5'                    # tie candidates
    ip, fp = digs[:point] or '0', digs[point:]
    s = ip + ('.' + fp if fp else '')
    if d.chance(1, 3):
        s = '-' + s
    return s


SIGS = ['1', '2', '3', '0.1', '0.05', '0.3', '7', '0.001', '10', '0.5',
        '2.5', '100', '0.25']
EDGE = {
    'SQRT': ['0', '-0.0000001', '1e-300', '4', '-1', '1e308'],
    'LOG': ['0', '-5', '1', '8', '1e308',
            # next to (not at) a whole power of the base
            '1.000000001', '0.999999999', '1000.000001', '999.9999999',
            '100.00000001', '8.000000001', '1.00000000001', '16.00000001',
            '0.1000000001', '1024.000001'],
    'LOG10': ['0', '-5', '1e-300', '1', '1000', '1e308', '1.000000001',
              '1000.000001', '0.999999999', '99.99999999'],
    'LN': ['0', '-1', '1e-300', '1', '2.718281828459045', '1e308',
           '1.000000001', '0.999999999', '2.718281829', '1.00000000001'],
    'EXP': ['709', '709.78', '709.79', '710', '1000', '-745', '-1000', '0'],
    'COSH': ['710', '711', '-711', '0', '1', '1e10'],
    'ASIN': ['1', '-1', '1.0000001', '-1.0000001', '0.5', '2'],
    'ACOS': ['1', '-1', '1.0000001', '-1.0000001', '0.5', '2', '-5'],
    'ACOSH': ['1', '0.9999999', '0', '-3', '10', '1e308'],
    'DEGREES': ['1e307', '1e308', '-1e308', '3.141592653589793',
                # just below / above the argument whose result leaves the
                # range (1.797e308 / 57.29...)
                '1e306', '-2e306', '3.13e306', '3.1374e306', '3.1376e306',
                '3.14e306', '1e-320', '5e-324'],
    'RADIANS': ['1e308', '-1e308', '1.7976931348623157e308', '6e307',
                '5.7e307', '5.73e307', '1e307', '180', '1e-306', '1e-320'],
    'ATAN': ['1e308', '-1e308', '1e-320', '0'],
    'ASINH': ['1e308', '-1e308', '1e154', '1.4e154', '-1e200', '1e-320'],
    'ABS': ['-1.7976931348623157e308', '1e308', '-5e-324', '-0'],
    'SIGN': ['-1.7976931348623157e308', '1e308', '-5e-324', '5e-324', '0'],
    'FACT': ['0', '1', '5', '10', '20', '50', '100', '150', '170', '-1',
             '-5'],
    'FACTDOUBLE': ['0', '1', '2', '5', '6', '10', '11', '50', '99', '100',
                   '200', '299', '300'],
}


def _build(d):
    fam = d.pick(10)
    mode = 'formula' if d.pick(4) == 0 else 'call'
    if fam < 5:
        fn = d.choice(ROUNDERS)
        x = _decimal_string(d)
        if d.chance(1, 12):
            # big magnitudes (beyond a 28-digit decimal context)
            x = x.replace('.', '') + 'e' + str(d.int(13, 40))
        elif d.chance(1, 8):
            # tiny magnitudes: their shortest representation is written in
            # exponent notation (1.5e-07)
            m = x.replace('.', '').replace('-', '').lstrip('0') or '1'
            x = ('-' if x.startswith('-') else '') + m[0] + (
                '.' + m[1:6] if len(m) > 1 else '') + 'e-' + str(d.int(4, 12))
        if fn in ('ROUND', 'ROUNDUP', 'ROUNDDOWN', 'TRUNC'):
            if d.chance(1, 8):
                args = [x]
            else:
                args = [x, d.int(-10, 10)]
        elif fn in ('INT', 'EVEN'):
            args = [x]
        else:
            sig = d.choice(SIGS)
            if d.chance(1, 3):
                sig = '-' + sig
            args = [x, sig]
        return {'fn': fn, 'args': args, 'mode': mode}
    fn = d.choice(ELEM)
    if fn in EDGE and d.chance(1, 2):
        x = d.choice(EDGE[fn])
    elif fn in ('FACT', 'FACTDOUBLE'):
        x = str(d.int(0, 170 if fn == 'FACT' else 300))
        if d.chance(1, 4):
            # a fractional argument is truncated first (6.5 -> 6)
            x += d.choice(['.5', '.75', '.001', '.25', '.999'])
    elif fn in ('ASIN', 'ACOS'):
        x = ('-' if d.pick(2) else '') + '0.' + ''.join(
            str(d.pick(10)) for _ in range(d.int(1, 12)))
    elif fn in ('SIN', 'COS', 'TAN'):
        x = _decimal_string(d, maxint=6)
    else:
        x = _decimal_string(d)
        if d.chance(1, 6):
            x = x + 'e' + str(d.int(-300, 290))
    if fn == 'PI':
        return {'fn': 'PI', 'args': [], 'mode': mode}
    if fn in ('ATAN2', 'MOD'):
        y = _decimal_string(d)
        if fn == 'MOD' and d.chance(1, 10):
            y = '0'
        elif fn == 'MOD' and d.chance(1, 6):
            # BOTH operands tiny (or both huge): products and quotients of
            # the two leave the range although the remainder does not
            e = d.choice(['e-200', 'e-300', 'e-165', 'e-180', 'e+200',
                          'e+300'])
            x = d.choice(['3', '-3', '2.5', '-7.5', '1']) + e
            y = d.choice(['2', '-2', '4', '-0.5']) + e
        return {'fn': fn, 'args': [x, y], 'mode': mode}
    if fn in ('POWER', 'CARET'):
        k = d.pick(6)
        if k == 0:
            a, b = '0', str(-d.int(1, 5))
        elif k == 1:
            a, b = '-' + str(d.int(1, 50)), '0.5'
        elif k == 2:
            a, b = str(d.int(2, 99)), str(d.int(200, 400))
        elif k == 3:
            a, b = '-' + str(d.int(1, 12)), str(d.int(0, 9))
        else:
            a = str(d.int(1, 400) / 8.0)
            b = str(d.int(-40, 40) / 4.0)
        # 'np': the base is the RESULT of functions (a numpy scalar inside
        # the library) instead of a literal: (ABS(a)*SIGN(a)) = a
        return {'fn': fn, 'args': [a, b],
                'mode': 'formula' if fn == 'CARET' else mode,
                'np': d.pick(3) == 0}
    if fn == 'LOG':
        if d.chance(1, 3):
            return {'fn': fn, 'args': [x], 'mode': mode}
        return {'fn': fn, 'args': [x, d.choice(['2', '10', '0.5', '16',
                                                 '2.718281828459045'])],
                'mode': mode}
    return {'fn': fn, 'args': [x], 'mode': mode}


def strategy(tier):
    return decoded(_build, min_size=24, max_size=64)


def budget(tier):
    return 120000 if tier == 'quick' else 3000000


def enumerate_cases(tier, shard=0, nshards=1):
    ties = ['1.5e-7', '2.5e-6', '-4.5e-9', '1e-7', '1.25e-5', '9.99e-5',
            '2.675', '1.005', '0.285', '2.5', '-2.5', '0.5', '1.5', '-0.5',
            '1234.5678', '-1234.5678', '0.125', '1.45', '8.325', '1e15',
            '5e-7', '0.29', '0.7', '4.42', '0.06', '7e19', '1e30', '2.5e28',
            '12345678901234.5', '0', '-0.0004', '99.995', '999999.5']
    i = 0
    for x in ties:
        for fn in ('ROUND', 'ROUNDUP', 'ROUNDDOWN', 'TRUNC'):
            for nd in range(-10, 11):
                i += 1
                if i % nshards == shard:
                    yield {'fn': fn, 'args': [x, nd], 'mode': 'call'}
        for fn in ('INT', 'EVEN'):
            i += 1
            if i % nshards == shard:
                yield {'fn': fn, 'args': [x], 'mode': 'call'}
        for fn in ('CEILING', 'FLOOR'):
            for sig in SIGS:
                for sg in ('', '-'):
                    i += 1
                    if i % nshards == shard:
                        yield {'fn': fn, 'args': [x, sg + sig],
                               'mode': 'call'}
    for fn, xs in EDGE.items():
        for x in xs:
            for mode in ('call', 'formula'):
                i += 1
                if i % nshards == shard:
                    yield {'fn': fn, 'args': [x], 'mode': mode}
    for n in range(0, 171):
        i += 1
        if i % nshards == shard:
            yield {'fn': 'FACT', 'args': [str(n)], 'mode': 'call'}
    for n in range(0, 301):
        i += 1
        if i % nshards == shard:
            yield {'fn': 'FACTDOUBLE', 'args': [str(n)], 'mode': 'call'}


# ----------------------------------------------------------------- oracle

ERR = 'ERR'


def D(x):
    """Decimal of the shortest representation of the float named by x."""
    return Decimal(repr(float(x)))


def _quant(x, nd, rounding):
    with localcontext() as ctx:
        ctx.prec = 400
        q = Decimal(1).scaleb(-nd)
        return float(D(x).quantize(q, rounding=rounding))


def expected(fn, a):
    f = [float(v) if not isinstance(v, int) else v for v in a]
    if fn == 'ROUND':
        return _quant(a[0], a[1] if len(a) > 1 else 0, ROUND_HALF_UP)
    if fn == 'ROUNDUP':
        return _quant(a[0], a[1] if len(a) > 1 else 0, ROUND_UP)
    if fn in ('ROUNDDOWN', 'TRUNC'):
        return _quant(a[0], a[1] if len(a) > 1 else 0, ROUND_DOWN)
    if fn == 'INT':
        return _quant(a[0], 0, ROUND_FLOOR)
    if fn == 'EVEN':
        x = Fraction(D(a[0]))
        n = 2 * math.ceil(abs(x) / 2)
        return float(n if x >= 0 else -n)
    if fn in ('CEILING', 'FLOOR'):
        x, s = Fraction(D(a[0])), Fraction(D(a[1]))
        if x > 0 and s < 0:
            return ERR
        q = x / s
        k = math.ceil(q) if fn == 'CEILING' else math.floor(q)
        return float(s * k)
    x = f[0] if f else None
    try:
        if fn == 'ABS':
            return abs(x)
        if fn == 'SIGN':
            return float((x > 0) - (x < 0))
        if fn == 'SQRT':
            return math.sqrt(x) if x >= 0 else ERR
        if fn == 'EXP':
            return math.exp(x)
        if fn == 'LN':
            return math.log(x) if x > 0 else ERR
        if fn == 'LOG10':
            return math.log10(x) if x > 0 else ERR
        if fn == 'LOG':
            b = f[1] if len(f) > 1 else 10.0
            if x <= 0 or b <= 0 or b == 1:
                return ERR
            return math.log(x) / math.log(b)
        if fn == 'SIN':
            return math.sin(x)
        if fn == 'COS':
            return math.cos(x)
        if fn == 'TAN':
            return math.tan(x)
        if fn == 'ASIN':
            return math.asin(x) if -1 <= x <= 1 else ERR
        if fn == 'ACOS':
            return math.acos(x) if -1 <= x <= 1 else ERR
        if fn == 'ATAN':
            return math.atan(x)
        if fn == 'ATAN2':
            if f[0] == 0 and f[1] == 0:
                return None
            return math.atan2(f[1], f[0])
        if fn == 'ACOSH':
            return math.acosh(x) if x >= 1 else ERR
        if fn == 'ASINH':
            return math.asinh(x)
        if fn == 'COSH':
            return math.cosh(x)
        if fn == 'DEGREES':
            r = math.degrees(x)
            return ERR if math.isinf(r) else r
        if fn == 'RADIANS':
            return math.radians(x)
        if fn in ('POWER', 'CARET'):
            a_, b_ = f
            if a_ == 0 and b_ == 0:
                return None
            if a_ == 0 and b_ < 0:
                return ERR
            if a_ < 0 and b_ != int(b_):
                return ERR
            r = math.pow(a_, b_)
            return r
        if fn == 'MOD':
            if f[1] == 0:
                return ERR
            # IEEE family: exact remainder of the two DOUBLES (not of their
            # decimal spellings), sign of the divisor
            xx, dd = Fraction(f[0]), Fraction(f[1])
            return float(xx - dd * math.floor(xx / dd))
        if fn == 'FACT':
            n = int(x)
            if n < 0:
                return ERR
            return float(math.factorial(n))
        if fn == 'FACTDOUBLE':
            n = int(x)
            p = 1
            while n > 1:
                p *= n
                n -= 2
            return float(p)
        if fn == 'PI':
            return math.pi
    except OverflowError:
        return ERR
    except ValueError:
        return ERR
    raise ValueError(fn)


def _lit(s):
    s = str(s)
    return s


def judge(case):
    res = Result()
    fn, args, mode = case['fn'], case['args'], case['mode']
    try:
        exp = expected(fn, args)
    except (OverflowError, ValueError, ArithmeticError):
        exp = None
    nums = [float(a) if not isinstance(a, int) else a for a in args]
    if any(isinstance(v, float) and (math.isinf(v) or math.isnan(v))
           for v in nums):
        return res
    if mode == 'call' and fn != 'CARET':
        obs = lib.call_fn(fn, *nums)
        note = [fn] + args
    else:
        def L(v):
            r = repr(v)
            return '(' + r + ')' if r.startswith('-') and fn == 'CARET' \
                else r
        if fn in ('CARET', 'POWER') and case.get('np'):
            base = '(ABS(%r)*SIGN(%r))' % (nums[0], nums[0])
            note = ('=%s^%s' % (base, L(nums[1])) if fn == 'CARET'
                    else '=POWER(%s,%r)' % (base, nums[1]))
        elif fn == 'CARET':
            note = '=%s^%s' % (L(nums[0]), L(nums[1]))
        else:
            note = '=%s(%s)' % (fn, ','.join(repr(v) for v in nums))
        obs, stage = lib.eval_formula(note)
    cls = _class(fn, args)
    res.labels = (fn, mode, cls)
    if exp is None:
        res.labels += ('not-asserted',)
        return res
    res.nontrivial = cls != 'general'
    if exp == ERR:
        if obs[0] != 'E':
            res.fail('domain:%s' % fn, 'an Excel error value', obs, note)
        return res
    if obs[0] == 'X':
        res.fail('exception:%s:%s:%s' % (fn, obs[1], cls), exp, obs, note)
        return res
    if obs[0] != 'N' or not isinstance(obs[1], float):
        res.fail('nonnumber:%s:%s:%s' % (fn, obs[0], cls), exp, obs, note)
        return res
    o = obs[1]
    if fn in ROUNDERS or fn in ('FACT', 'FACTDOUBLE', 'ABS', 'SIGN'):
        ok = o == exp or ulps(o, exp) <= 1
    elif fn == 'MOD':
        ok = o == exp or ulps(o, exp) <= 4 or \
            abs(o - exp) <= 2.0 ** -50 * abs(nums[1])
    else:
        ok = o == exp or ulps(o, exp) <= 8 or abs(o - exp) <= 1e-300
        if not ok and fn in ('SIN', 'COS', 'TAN', 'LOG'):
            ok = abs(o - exp) <= 1e-14 * max(1.0, abs(exp))
    if not ok:
        res.fail('value:%s:%s' % (fn, cls), exp, obs, note)
    return res


def _class(fn, args):
    if fn in ('ROUND', 'ROUNDUP', 'ROUNDDOWN', 'TRUNC', 'INT', 'EVEN'):
        x = D(args[0])
        nd = args[1] if len(args) > 1 else 0
        if abs(x) >= Decimal(10) ** 27 or (
                x != 0 and x.adjusted() + 1 + nd > 27):
            return 'beyond-28-digits'
        sh = x.scaleb(nd)
        frac = sh - sh.to_integral_value(rounding=ROUND_DOWN)
        if frac == 0:
            return 'general'
        if abs(frac) == Decimal('0.5'):
            return 'tie'
        return 'negative-digits' if nd < 0 else 'dropped-part'
    if fn in ('CEILING', 'FLOOR'):
        s = D(args[1])
        if s != s.to_integral_value():
            return 'fractional-significance'
        return 'integer-significance'
    if fn in EDGE and str(args[0]) in EDGE[fn]:
        return 'edge'
    return 'general' if fn in ('ABS', 'SIGN', 'PI') else 'elementary'
