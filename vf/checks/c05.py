"""C05 - evaluation is deterministic, idempotent and order-independent."""
import gc

from vf.core.runner import Result
from vf.core import lib
from vf.core.norm import norm, root_exc, exc_tag, close
from vf.gen import models as GM
from vf.gen.decode import decoded
from vf.ref import refeval as R

ID = 'C05'
LEVEL = 'exploration'
RULE = ('sampled (Hypothesis-decoded): random acyclic models without '
        'volatile functions and schedules - sequences (permutations with '
        'repetitions, length up to 3 x #cells) of (evaluator index, cell) '
        'over 1-3 Evaluator instances sharing the model, incl. blank '
        'addresses; enumerated: all permutations of the cells of two fixed '
        'models (diamond + range, two-sheet) with one and two evaluators.  '
        'Oracle: (a) every value equals the value of that cell as the first '
        'and only evaluation on a fresh copy of the model - for a quarter of '
        'the cases and all models with inputs of mixed kinds (7 / 7.0, 0 / '
        'FALSE, "abc" / "ABC", 12 / "12" under &, ISNUMBER, COUNT, CONCAT, '
        'LEN ...) in a freshly imported, independent copy of the whole '
        'LIBRARY, so that state the library keeps between models is seen '
        'as well - and the reference evaluator; (b) snapshot of constants, formula texts, defined names '
        'and the key sets of cells/formulae/ranges before = after; (c) '
        'memory: N identical sweeps under tracemalloc after a warm-up, '
        'growth per evaluate() call must stay below 64 bytes (the leak the '
        'property mentions is ~2300 bytes per call).  Non-trivial = the '
        'schedule evaluates a formula cell both before and after one of its '
        'transitive precedents, on >= 2 dependency levels; distinct by '
        '(model, schedule).')
ASSUMPTIONS = [
    'schedules are orders of calls; true thread concurrency is not explored '
    '(the library makes no such claim)',
    'memory: tracemalloc (allocator independent), gc.collect() before each '
    'reading; a leak below 64 bytes per call would pass',
]
CASE_LIMIT_S = 120

FIXED = [
    {'inputs': {'Sheet1!A1': 3, 'Sheet1!A2': 4},
     'formulas': {'Sheet1!B1': ['op', '+', ['ref', 'A1'], ['num', '1']],
                  'Sheet1!B2': ['op', '*', ['ref', 'A2'], ['ref', 'A1']],
                  'Sheet1!C1': ['call', 'SUM', [['range', 'B1:B2']]],
                  'Sheet1!D1': ['op', '+', ['ref', 'C1'], ['ref', 'B1']]},
     'sheets': ['Sheet1']},
    {'inputs': {'Sheet1!A1': 5},
     'formulas': {'Sheet2!A1': ['op', '+', ['ref', 'Sheet1!A1'],
                                ['num', '1']],
                  'Sheet1!B1': ['op', '*', ['ref', 'Sheet2!A1'],
                                ['num', '3']],
                  'Sheet1!C1': ['op', '-', ['ref', 'B1'],
                                ['ref', 'Sheet2!A1']]},
     'sheets': ['Sheet1', 'Sheet2']},
]
FIXED.append(
    # twin sheets: character-identical formula texts with unqualified
    # references that mean different cells
    {'inputs': {'Sheet1!A1': 1, 'Sheet1!A2': 2, 'Sheet2!A1': 100,
                'Sheet2!A2': 200},
     'formulas': {'Sheet1!B1': ['op', '+', ['ref', 'A1'], ['num', '1']],
                  'Sheet2!B1': ['op', '+', ['ref', 'A1'], ['num', '1']],
                  'Sheet1!C1': ['call', 'SUM', [['range', 'A1:A2']]],
                  'Sheet2!C1': ['call', 'SUM', [['range', 'A1:A2']]]},
     'sheets': ['Sheet1', 'Sheet2']})
for _m in FIXED:
    _m['order'] = list(_m['formulas'])


def enumerate_cases(tier, shard=0, nshards=1):
    import itertools
    i = 0
    for mi, m in enumerate(FIXED):
        cells = sorted(m['formulas']) + sorted(m['inputs'])[:1]
        for perm in itertools.permutations(cells):
            for nev in (1, 2):
                i += 1
                if i % nshards != shard:
                    continue
                sched = [[j % nev, c] for j, c in enumerate(perm)]
                # evaluate everything twice: idempotence
                yield {'fixed': mi, 'nev': nev, 'schedule': sched + sched}
    # long dependency chains: the value of the top cell must not depend on
    # whether cells further down were evaluated before
    from vf.checks.c04 import _chain_model
    for nlen in (66, 130, 200):
        top, mid, low = ('Sheet1!A%d' % nlen, 'Sheet1!A%d' % (nlen // 2),
                         'Sheet1!A%d' % max(2, nlen - 129))
        for sched in ([[0, top]], [[0, mid], [0, top]],
                      [[0, top], [1, low], [0, top], [1, top]],
                      [[0, low], [0, mid], [1, top]]):
            i += 1
            if i % nshards == shard:
                yield {'model': _chain_model(nlen), 'nev': 2,
                       'schedule': sched}
    n = 3000 if tier == 'quick' else 60000
    for k in range(5 + len(ERR_SOURCES)):
        i += 1
        if i % nshards == shard:
            yield {'memory': k, 'n': n}


def _twin(d):
    """two sheets holding the same formula texts over different inputs"""
    m = {'inputs': {}, 'formulas': {}, 'sheets': ['Sheet1', 'Sheet2']}
    for si, sh in enumerate(m['sheets']):
        for r in (1, 2, 3):
            m['inputs']['%s!A%d' % (sh, r)] = (si * 100 + r * 7
                                               + d.pick(3))
    forms = []
    for r in range(1, d.int(2, 4)):
        k = d.pick(3)
        if k == 0:
            t = ['op', d.choice(['+', '*', '-']), ['ref', 'A%d' % d.int(1, 3)],
                 ['ref', 'A%d' % d.int(1, 3)]]
        elif k == 1:
            t = ['call', 'SUM', [['range', 'A1:A%d' % d.int(2, 3)]]]
        else:
            t = ['op', '+', ['ref', 'A%d' % d.int(1, 3)], ['num', '1']]
        forms.append(('B%d' % r, t))
    if d.pick(2):
        forms.append(('C1', ['op', '+', ['ref', 'B1'], ['ref', 'A1']]))
    for sh in m['sheets']:
        for a, t in forms:
            m['formulas'][sh + '!' + a] = t
    m['order'] = list(m['formulas'])
    return m


KIND_GROUPS = [[7, 7.0], [0, 0.0, -0.0, False], [1, 1.0, True],
               ['abc', 'ABC', 'Abc'], [2.5, '2.5'], [12, '12', 12.0],
               [u'\xe9', u'\xc9']]


def _kinds(d):
    """inputs that are EQUAL under Excel's '=' (or Python's ==) but of
    different kinds - 7 / 7.0, 0 / FALSE / -0.0, 'abc' / 'ABC', 12 / '12' -
    under consumers that can tell them apart.  Only order independence is
    judged on these models (no reference values)."""
    m = {'inputs': {}, 'formulas': {}, 'sheets': ['Sheet1'], 'noref': True}
    g = d.choice(KIND_GROUPS)
    for r in range(1, 5):
        m['inputs']['Sheet1!A%d' % r] = d.choice(
            g if d.pick(4) else d.choice(KIND_GROUPS))

    def ref():
        return ['ref', 'A%d' % d.int(1, 4)]
    rng = ['range', 'A1:A4']
    for i in range(1, d.int(3, 7)):
        k = d.pick(10)
        if k == 0:
            t = ['op', '&', ref(), ['str', '']]
        elif k == 1:
            t = ['call', d.choice(['ISNUMBER', 'ISTEXT']), [ref()]]
        elif k == 2:
            t = ['op', d.choice(['=', '<', '>=', '<>']), ref(), ref()]
        elif k == 3:
            t = ['call', d.choice(['COUNT', 'COUNTA', 'SUM', 'MAX']), [rng]]
        elif k == 4:
            t = ['call', 'CONCAT', [rng]]
        elif k == 5:
            t = ['op', d.choice(['+', '*']), ref(), ['num', '1']]
        elif k == 6:
            t = ['op', '&', ref(), ref()]
        elif k == 7 and i > 1:
            t = ['op', '&', ['ref', 'B%d' % d.int(1, i - 1)], ['str', '|']]
        elif k == 8:
            t = ['call', 'IF', [ref(), ['str', 'y'], ref()]]
        elif d.pick(2):
            t = ['call', 'LEN', [ref()]]
        else:
            # a formula that refers to no cell at all
            t = d.choice([['op', '+', ['num', '1'], ['num', '2']],
                          ['op', '&', ['str', 'a'], ['str', 'b']],
                          ['op', '<', ['num', '1'], ['num', '2']]])
        m['formulas']['Sheet1!B%d' % i] = t
    m['order'] = list(m['formulas'])
    return m


def _build(d):
    k = d.pick(8)
    model = _twin(d) if k < 2 else _kinds(d) if k < 4 else GM.build_model(d)
    cells = model['order'] + sorted(model['inputs'])[:3] + ['Sheet1!Z9']
    nev = d.int(1, 3)
    n = d.int(2, 3 * len(cells))
    sched = [[d.pick(nev), d.choice(cells)] for _ in range(n)]
    if d.pick(2) and model['order']:
        # a dependant first, then its precedents, then the dependant again
        c = model['order'][-1]
        sched = [[0, c]] + sched + [[d.pick(nev), c]]
    # iso: the comparison value of each cell is computed in an independent
    # copy of the LIBRARY (not only of the model)
    # the ROUTE by which the scheduled model came into being: compiled,
    # extracted from the compiled one (focus: every cell), or persisted and
    # restored - the comparison values always come from a compiled one
    via = ['extract', 'json'][d.pick(2)] if d.pick(4) == 0 else 'dict'
    return {'model': model, 'nev': nev, 'schedule': sched, 'via': via,
            'iso': bool('noref' in model or d.pick(4) == 0)}


def strategy(tier):
    return decoded(_build, min_size=48, max_size=220)


def budget(tier):
    # (a quarter of the cases and all mixed-kind models re-import the
    # library per compared cell: ~45 ms each)
    return 4000 if tier == 'quick' else 40000


def snapshot(model):
    cells = {}
    for a, c in model.cells.items():
        if c.formula is None:
            cells[a] = ('const', norm(c.value))
        else:
            # the formula object as a user sees it: text, the flag that says
            # whether it is to be evaluated, the addresses it refers to
            f = c.formula
            cells[a] = ('formula', f.formula, getattr(f, 'evaluate', None),
                        sorted(str(t) for t in (getattr(f, 'terms', None)
                                                or [])),
                        getattr(f, 'sheet_name', None))
    names = {}
    for n, d in model.defined_names.items():
        names[n] = getattr(d, 'address', None) if not isinstance(
            getattr(d, 'address', None), list) else 'range'
    return {'cells': cells, 'names': names,
            'formulae': sorted(model.formulae),
            'ranges': sorted(model.ranges)}


def judge(case):
    res = Result()
    if 'memory' in case:
        return _memory(case, res)
    xl = lib.lib()
    model = FIXED[case['fixed']] if 'fixed' in case else case['model']
    sched, nev = case['schedule'], case['nev']
    d = GM.to_dict(model)
    try:
        m = lib.compile_dict(d)
        via = case.get('via', 'dict')
        if via == 'extract' and model['order']:
            m = xl.ModelCompiler.extract(m, focus=sorted(m.cells))
        elif via == 'json':
            import os
            import tempfile
            fd, fn = tempfile.mkstemp(prefix='vf_c05_', suffix='.json')
            os.close(fd)
            try:
                m.persist_to_json_file(fn)
                m = xl.Model()
                m.construct_from_json_file(fn, build_code=True)
            finally:
                os.remove(fn)
        evs = [xl.Evaluator(m) for _ in range(nev)]
    except Exception as err:  # noqa: BLE001
        t = exc_tag(err)
        res.fail('compile-exception:%s:%s' % (t[1], t[2]), 'model', t)
        return res
    before = snapshot(m)
    first = {}
    dp = GM.deps(model)
    seen_before = {}
    nontrivial = False
    for step, (ei, a) in enumerate(sched):
        try:
            obs = norm(evs[ei % nev].evaluate(a))
        except Exception as err:  # noqa: BLE001
            obs = root_exc(err)
        if a not in first:
            try:
                if case.get('iso'):
                    with lib.fresh_library():
                        fm = lib.compile_dict(d)
                        first[a] = lib.evaluate(fm, a)
                else:
                    fm = lib.compile_dict(d)
                    first[a] = lib.evaluate(fm, a)
            except Exception as err:  # noqa: BLE001
                first[a] = exc_tag(err)
        if a in model['formulas']:
            want = None if model.get('noref') else R.tag(
                GM.ref_values(model, None, [a])[a])
            if want is not None and not close(first[a], want, rel=1e-12):
                res.fail('fresh-model-disagrees-with-reference', want,
                         first[a], [a, d])
                return res
            if model.get('noref') and any(x == a for _, x in sched[:step]):
                nontrivial = True
            if GM.depth(model, a, dp) >= 2 and a in seen_before and any(
                    x in model['formulas'] and seen_before[a] < s2
                    for x, s2 in seen_before.items()
                    if x in GM.closure(model, [a]) and x != a):
                nontrivial = True
            seen_before[a] = step
        if not close(obs, first[a], rel=0):
            b = 'schedule-dependent-value:%s' % (
                'repeat' if any(x == a for _, x in sched[:step])
                else 'order')
            if obs[0] == 'X':
                b = 'eval-exception:%s:%s' % (obs[1], obs[2])
            res.fail(b, first[a], obs, [step, ei, a])
            return res
    after = snapshot(m)
    if after != before:
        what = [k for k in before if before[k] != after[k]]
        res.fail('model-changed-by-evaluation:%s' % ','.join(what),
                 {k: before[k] for k in what} if len(str(before)) < 2000
                 else what, {k: after[k] for k in what}
                 if len(str(after)) < 2000 else what)
    res.nontrivial = nontrivial
    res.labels = ('fixed' if 'fixed' in case else 'kinds' if model.get(
        'noref') else 'random', 'nev:%d' % nev) + (
            ('isolated-library',) if case.get('iso') else ()) + (
                ('via:' + case.get('via', 'dict'),))
    return res


# error values by the MECHANISM that produces them (raised directly, raised
# while another exception is being handled, returned, literal, from text
# conversion, from a date function ...), each inside a range under several
# consumers and as a scalar operand
ERR_SOURCES = ['=0^-1', '=1/0', '=SQRT(-1)', '="a"+1', '=DATE(-5,1,1)',
               '=LN(0)', '=MOD(1,0)', '=NA()', '=#REF!', '=VLOOKUP(9,A1:A1,5)',
               '=DEC2BIN(9999)', '=FIND("z","abc")', '=MATCH(9,A1:A1,0)']


def _memory(case, res):
    import tracemalloc
    xl = lib.lib()
    k, n = case['memory'], case['n']
    if k >= 5:
        src = ERR_SOURCES[k - 5]
        d = {'Sheet1!A1': 5, 'Sheet1!B1': src, 'Sheet1!B2': 3,
             'Sheet1!C1': '=SUM(B1:B2)', 'Sheet1!C2': '=MAX(B1:B2,A1)',
             'Sheet1!C3': '=COUNT(B1:B2)', 'Sheet1!C4': '=B1+1',
             'Sheet1!C5': '=IF(ISERROR(B1),1,2)', 'Sheet1!C6': '=B1&"x"'}
        m = lib.compile_dict(d)
        cells = ['Sheet1!C%d' % i for i in range(1, 7)]
        evs = [xl.Evaluator(m)]
        n = max(600, n // 3)
    elif k >= 3:
        # error VALUES (literal, computed, NA()) that are reached and flow
        # into list-typed arguments and ranges, again and again
        d = {'Sheet1!A1': 5,
             'Sheet1!B1': '=IF(A1>3,IF(A1>7,0,#N/A),2)',
             'Sheet1!B2': '=1/0', 'Sheet1!B3': '=NA()', 'Sheet1!B4': 3,
             'Sheet1!C1': '=SUM(B1,B4,2)', 'Sheet1!C2': '=MAX(B2:B4)',
             'Sheet1!C3': '=B3&"x"', 'Sheet1!C4': '=SUM(B4,B3)+#REF!',
             'Sheet1!C5': '=IF(ISNA(C1),1,2)'}
        if k == 4:
            d['Sheet1!B1'] = '=#VALUE!'
            d['Sheet1!C1'] = '=AVERAGE(B4,B1,B1)'
        m = lib.compile_dict(d)
        cells = ['Sheet1!C%d' % i for i in range(1, 6)]
        evs = [xl.Evaluator(m)]
    else:
        model = FIXED[0] if k != 1 else FIXED[1]
        m = lib.compile_dict(GM.to_dict(model))
        evs = [xl.Evaluator(m)] if k != 2 else [xl.Evaluator(m),
                                                xl.Evaluator(m)]
        cells = sorted(model['formulas'])

    def sweeps(count):
        for i in range(count):
            ev = evs[i % len(evs)]
            for c in cells:
                ev.evaluate(c)
    sweeps(max(50, n // 3))
    gc.collect()
    tracemalloc.start()
    try:
        sweeps(n // 3)
        gc.collect()
        m1 = tracemalloc.get_traced_memory()[0]
        sweeps(n // 3)
        gc.collect()
        m2 = tracemalloc.get_traced_memory()[0]
    finally:
        tracemalloc.stop()
    calls = (n // 3) * len(cells)
    per_call = (m2 - m1) / float(calls)
    res.nontrivial = True
    res.labels = ('memory',)
    if per_call > 64:
        res.fail('memory-accumulates' + (
            ':error-value' if k >= 3 else ''), '< 64 bytes per evaluate() call',
                 {'bytes_per_call': round(per_call, 1), 'calls': calls,
                  'growth_bytes': m2 - m1})
    return res
