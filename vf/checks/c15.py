"""C15 - criteria counting and lookups agree with a linear scan."""
from vf.core.runner import Result
from vf.core import lib
from vf.gen.decode import decoded
from vf.ref.refeval import num_to_col

ID = 'C15'
LEVEL = 'exploration'
RULE = ('Approximate MATCH also over ascending TEXT columns with column and key in independent letter case.  '
        'sampled (Hypothesis-decoded): columns/tables (<=12 rows x <=5 '
        'columns) of numbers and non-numeric texts with duplicates; criteria: '
        'bare number, bare text, and each prefix = <> < <= > >= with '
        'positive, negative and decimal numeric operands and with text '
        'operands in varying case; COUNTIFS with 1-3 (range, criterion) '
        'pairs; MATCH exact with the key at every position, duplicated and '
        'absent; approximate MATCH on ascending data with keys below, '
        'between, equal and above; VLOOKUP exact for every column index '
        '1..ncols, ncols+1 and absent keys; CHOOSE(i, v1..vn) for i in '
        '0..n+1; all through formulas over cells (and direct calls for '
        'CHOOSE).  Oracle: pure-Python linear scans (30-line criteria '
        'matcher written from the statement).  Non-trivial = expected count '
        'not in {0, all}; lookup key at a position > 1 or column index > 2; '
        'distinct by (function, table, criterion/key).')
ASSUMPTIONS = [
    'SUMIF/SUMIFS are not exercised: the installed pandas 3.0 has no '
    'DataFrame.applymap and both raise AttributeError (the statement '
    'exempts this)',
    'wildcards, <> against blank cells, numeric text cells, cells holding '
    'error values (COUNTIF over a column with an error cell raises '
    'TypeError or returns the error in this library; the statement '
    'quantifies over numbers and texts), VLOOKUP with '
    'range_lookup TRUE and MATCH type -1 are not generated',
]

# texts that START with a comparison character (cells and operands; only
# under = and <>, where no collation of punctuation is involved)
OPWORDS = ['>3', '<b', '>=1', '<>x', '>', '<']
WORDS = ['foo', 'Bar', 'qux', 'zed', 'FOO', 'bar', 'kiwi', 'plum',
         # blanks at either end or inside are part of the text
         'foo ', ' foo', 'ba r', 'Bar ']
OPS = ['', '=', '<>', '<', '<=', '>', '>=']


def _cell(d):
    k = d.pick(8)
    if k < 2:
        return d.int(-6, 9)
    if k == 2:
        return d.int(-40, 60) / 4.0
    if k == 6:
        # other KINDS of the same values: integer-valued floats, values
        # produced by a formula (['f', source, value]), non-ASCII words
        n = d.int(-3, 6)
        return d.choice([float(n), ['f', '=%d+1' % n, n + 1],
                         ['f', '=%d/2' % n, n / 2.0],
                         ['f', '="fo"&"o"', 'foo'], ['f', '="B"&"ar"', 'Bar'],
                         u'\xc9t\xe9', u'\xe9t\xe9', 'Foo'])
    if k == 7:
        return d.choice([0, 0.0, -0.0, 1e-9, -1e-9, 3, 3.0])
    return d.choice(WORDS) if k < 5 else d.int(0, 3)


def val(v):
    return v[2] if isinstance(v, list) else v


def src(v):
    return v[1] if isinstance(v, list) else v


def _crit(d, col):
    if d.chance(1, 10):
        # "=>3" is: equal to the text ">3"
        w = d.choice(OPWORDS)
        if col and d.pick(2):
            col[d.pick(len(col))] = w
        return ['s', d.choice(['=', '<>']) + w]
    op = d.choice(OPS)
    if d.pick(3) and col:
        v = val(d.choice(col))
    else:
        v = val(_cell(d))
    if isinstance(v, str):
        if d.pick(2):
            v = v.swapcase()
        return ['s', op + v] if True else None
    if op == '' and d.pick(2):
        return ['n', v]
    return ['s', op + repr(v)]


def _build(d):
    k = d.pick(8)
    nrows = d.int(1, 12)
    if d.chance(1, 12):
        nrows = d.choice([26, 27, 100, 255, 256, 300])
    if k in (0, 1, 2):
        ncrit = 1 if k == 0 else d.int(1, 3)
        if nrows > 40:
            # long columns are tiled from a drawn pattern of 11 cells (the
            # byte budget of a case pays for ~50 cells)
            pats = [[_cell(d) for _ in range(11)] for _ in range(ncrit)]
            cols = [[p[i % 11] for i in range(nrows)] for p in pats]
        else:
            cols = [[_cell(d) for _ in range(nrows)] for _ in range(ncrit)]
        crits = [_crit(d, c) for c in cols]
        for c, cr in zip(cols, crits):
            # BLANK cells: only under criteria for which the statement
            # decides them (ordering operators, equality with a text)
            op, operand = parse_criterion(cr)
            if (op in ('<', '<=', '>', '>=') or (
                    op == '=' and isinstance(operand, str) and operand)) \
                    and d.pick(3) == 0:
                for i in range(len(c)):
                    if d.pick(4) == 0:
                        c[i] = None
        return {'k': 'COUNTIF' if k == 0 else 'COUNTIFS', 'cols': cols,
                # the criterion handed over through a CELL instead of being
                # written into the formula
                'critcell': d.pick(3) == 0,
                'npcells': d.pick(5) == 0,
                'crits': crits, 'orient': d.choice(['c', 'c', 'r'])}
    if k == 3:
        col = [_cell(d) for _ in range(min(nrows, 11))]
        col = [col[i % len(col)] for i in range(nrows)]
        if nrows > 11 and d.pick(2):
            # a key that only occurs far down
            col[d.choice([nrows - 1, nrows // 2, 11])] = d.choice(
                ['needle', 777.5])
        key = val(d.choice(col) if d.pick(4) else _cell(d))
        if isinstance(key, str) and d.pick(3) == 0:
            key = key.swapcase()
        return {'k': 'MATCH0', 'col': col, 'key': key}
    if k == 4 and d.pick(3) == 0:
        # ascending TEXT data (texts order case-insensitively, C09), the
        # letter case of column and key chosen independently
        words = ['apple', 'banana', 'cherry', 'date', 'elder', 'fig',
                 'grape', 'kiwi', 'lemon', 'mango', 'nut', 'olive']
        vals = sorted(set(d.choice(words) for _ in range(min(nrows, 9))))
        if d.pick(5) == 0:
            vals = sorted(vals + [d.choice(vals)])

        def recase(w_):
            return d.choice([w_, w_.upper(), w_.capitalize(), w_.swapcase(),
                             w_[:-1] + w_[-1].upper()])
        key = d.choice(vals) if d.pick(3) else d.choice(
            ['a', 'b', 'cz', 'dz', 'hello', 'zz', 'm', 'kiwis', 'lemo'])
        col = [recase(v) for v in vals]
        if d.pick(3) == 0:
            # MIXED ascending data: numbers (smaller than every text) first;
            # a numeric key, or a text key not below the first text (what a
            # text key below every text finds among numbers is not pinned
            # down)
            nums = sorted(set(d.int(-20, 40) for _ in range(d.int(1, 5))))
            col = nums + col
            if d.pick(3) == 0:
                key = d.int(-25, 45) + d.choice([0, 0.5])
            elif key < vals[0]:
                key = vals[0]
        return {'k': 'MATCH1', 'col': col,
                'key': recase(key) if isinstance(key, str) else key,
                'omit': bool(d.pick(2))}
    if k == 4:
        vals = sorted(set(d.int(-20, 40) for _ in range(nrows)))
        if d.pick(6) == 0 and vals:
            vals = sorted(vals + [d.choice(vals)])
        key = d.choice(vals) if d.pick(3) == 0 else d.int(-25, 45)
        if d.pick(3) == 0:
            key = key + 0.5
        return {'k': 'MATCH1', 'col': vals, 'key': key,
                'omit': bool(d.pick(2))}
    if k in (5, 6):
        ncols = d.int(1, 5)
        table = [[_cell(d) for _ in range(ncols)] for _ in range(nrows)]
        keys = [r[0] for r in table]
        key = val(d.choice(keys) if d.pick(5) else _cell(d))
        if isinstance(key, str) and d.pick(4) == 0:
            key = key.swapcase()
        return {'k': 'VLOOKUP', 'table': table, 'key': key,
                'col': d.int(1, ncols + 1) if d.pick(6) else d.choice(
                    [0, -1, ncols + 1, ncols + 2])}
    n = d.int(1, 8)
    if d.chance(1, 6):
        n = d.choice([9, 10, 11, 29, 30, 100, 253, 254])
        i = d.choice([1, n - 1, n, n + 1, 9, 10, 11])
        return {'k': 'CHOOSE', 'i': i, 'vals': [j * 3 + 1 for j in range(n)],
                'mode': 'call' if d.pick(2) else 'formula'}
    return {'k': 'CHOOSE', 'i': d.int(0, n + 1),
            'vals': [val(_cell(d)) for _ in range(n)],
            'mode': 'call' if d.pick(2) else 'formula'}


def strategy(tier):
    return decoded(_build, min_size=24, max_size=120)


def budget(tier):
    return 24000 if tier == 'quick' else 1500000


def enumerate_cases(tier, shard=0, nshards=1):
    col = [3, -2, 'foo', 0.5, 'Bar', 3, -1.5, 'FOO', 10, 0]
    i = 0
    for op in OPS:
        for operand in (3, -2, -1.5, 0, 0.5, -1, 100, 'foo', 'BAR', 'zzz',
                        'a'):
            i += 1
            if i % nshards != shard:
                continue
            if isinstance(operand, str):
                c = ['s', op + operand]
            elif op == '':
                c = ['n', operand]
            else:
                c = ['s', op + repr(operand)]
            yield {'k': 'COUNTIF', 'cols': [col], 'crits': [c]}
            yield {'k': 'COUNTIFS', 'cols': [col, list(reversed(col))],
                   'crits': [c, ['s', '>=0']]}
    for n in range(1, 7):
        for idx in range(0, n + 2):
            i += 1
            if i % nshards == shard:
                yield {'k': 'CHOOSE', 'i': idx,
                       'vals': list(range(10, 10 + n)), 'mode': 'formula'}


# ------------------------------------------------------------------ oracle

def is_num(v):
    return isinstance(v, (int, float)) and not isinstance(v, bool)


def parse_criterion(c):
    """-> (op, operand) with a typed operand."""
    kind, v = c
    if kind == 'n':
        return '=', v
    for op in ('<=', '>=', '<>', '<', '>', '='):
        if v.startswith(op):
            rest = v[len(op):]
            break
    else:
        op, rest = '=', v
    try:
        return op, int(rest)
    except ValueError:
        pass
    try:
        return op, float(rest)
    except ValueError:
        return op, rest


def matches(cell, op, operand):
    cell = val(cell)
    if cell is None:
        # only generated under ordering / text-equality criteria
        assert op in ('<', '<=', '>', '>=', '='), op
        return False
    same = is_num(cell) == is_num(operand)
    if is_num(cell) and is_num(operand):
        a, b = cell, operand
    elif same:
        a, b = cell.upper(), operand.upper()
    if op == '=':
        return same and a == b
    if op == '<>':
        return not (same and a == b)
    if not same:
        return False    # ordering only within the operand's own type
    return {'<': a < b, '<=': a <= b, '>': a > b, '>=': a >= b}[op]


def lit(v):
    if isinstance(v, str):
        return '"' + v.replace('"', '""') + '"'
    r = repr(v)
    return r


def eq_key(a, b):
    a = val(a)
    if is_num(a) and is_num(b):
        return a == b
    if isinstance(a, str) and isinstance(b, str):
        return a.upper() == b.upper()
    return False


def _cells(cols):
    out = {}
    for c, col in enumerate(cols):
        for r, v in enumerate(col):
            if v is not None:
                out['Sheet1!%s%d' % (num_to_col(c + 1), r + 1)] = src(v)
    return out


def _rng(c, n):
    L = num_to_col(c + 1)
    return '%s1:%s%d' % (L, L, n)


def N(x):
    return ('N', float(x))


def tagv(v):
    v = val(v)
    return N(v) if is_num(v) else ('T', v)


def judge(case):
    res = Result()
    k = case['k']
    res.labels = (k,)
    if k in ('COUNTIF', 'COUNTIFS'):
        cols, crits = case['cols'], case['crits']
        n = len(cols[0])
        parsed = [parse_criterion(c) for c in crits]
        want = sum(1 for r in range(n) if all(
            matches(cols[j][r], *parsed[j]) for j in range(len(cols))))
        if case.get('orient', 'c') == 'r':
            # the same vectors laid out as rows
            cells = {}
            rngs = []
            for j, col in enumerate(cols):
                for i, v in enumerate(col):
                    if v is not None:
                        cells['Sheet1!%s%d' % (num_to_col(i + 1),
                                               j + 1)] = src(v)
                rngs.append('A%d:%s%d' % (j + 1, num_to_col(n), j + 1))
            res.labels += ('row-ranges',)
        else:
            cells = _cells(cols)
            rngs = [_rng(j, n) for j in range(len(cols))]
        presets = None
        if case.get('critcell'):
            presets = {}
            for j in range(len(cols)):
                cv = crits[j][1]
                if isinstance(cv, str) and cv[:1] == '=':
                    # a text starting with '=' cannot be written into the
                    # dict (it would be a formula): set_cell_value
                    cells['Sheet1!XF%d' % (j + 1)] = 0
                    presets['Sheet1!XF%d' % (j + 1)] = cv
                else:
                    cells['Sheet1!XF%d' % (j + 1)] = cv
            args = ','.join('%s,XF%d' % (rngs[j], j + 1)
                            for j in range(len(cols)))
            res.labels += ('criterion-from-cell',)
        else:
            args = ','.join('%s,%s' % (rngs[j], lit(crits[j][1]))
                            for j in range(len(cols)))
        if case.get('npcells'):
            # whole numbers held as numpy integer scalars (what a cell holds
            # after numpy arithmetic, or what a caller sets): every second
            # whole-number cell
            import numpy
            presets = dict(presets or {})
            flip = 0
            for a_, v_ in sorted(cells.items()):
                if isinstance(v_, int) and not isinstance(v_, bool) \
                        and a_ not in presets:
                    flip += 1
                    if flip % 2:
                        presets[a_] = numpy.int64(v_)
            res.labels += ('numpy-int-cells',)
        f = '=%s(%s)' % (k, args)
        o = lib.eval_formula(f, cells, addr='Sheet1!Z99',
                             presets=presets)[0]
        res.nontrivial = 0 < want < n
        res.labels += tuple('op:' + p[0] for p in parsed[:1])
        if o != N(want):
            if any(is_num(pp[1]) and pp[1] < 0 and cc[0] == 's'
                   for pp, cc in zip(parsed, crits)):
                cls = 'negative-operand'
            elif any(pp[0] in ('<', '<=', '>', '>=') for pp in parsed):
                cls = 'ordering-operator'
            elif any(pp[0] == '<>' for pp in parsed):
                cls = 'not-equal'
            else:
                cls = 'equality'
            b = 'criteria:%s%s' % (cls, ':several' if len(crits) > 1 else '')
            if o[0] == 'X':
                b = 'exception:%s:%s:%s' % (k, o[1], cls)
            res.fail(b, N(want), o, f)
        return res
    if k == 'MATCH0':
        col, key = case['col'], case['key']
        pos = next((i + 1 for i, v in enumerate(col) if eq_key(v, key)), None)
        f = '=MATCH(%s,%s,0)' % (lit(key), _rng(0, len(col)))
        o = lib.eval_formula(f, _cells([col]), addr='Sheet1!Z1')[0]
        want = N(pos) if pos else ('E', '#N/A')
        res.nontrivial = pos is not None and pos > 1
        if o != want:
            exact_case = pos and val(col[pos - 1]) == key
            res.fail('MATCH0:%s' % ('absent' if not pos else 'present'
                                    if exact_case else 'case-variant-key'),
                     want, o, f)
        return res
    if k == 'MATCH1':
        col, key = case['col'], case['key']
        if not col:
            return res
        pos = 0
        mixed = len({isinstance(v, str) for v in col}) > 1
        if isinstance(key, str) or mixed:
            res.labels = ('MATCH1-mixed' if mixed else 'MATCH1-text',)

        def k_(v):
            # the total order of C09: numbers below texts, texts without
            # regard to letter case
            return (1, v.lower()) if isinstance(v, str) else (0, v)
        for i, v in enumerate(col):
            if k_(v) <= k_(key):
                pos = i + 1
        f = '=MATCH(%s,%s%s)' % (lit(case['key']), _rng(0, len(col)),
                                  '' if case['omit'] else ',1')
        o = lib.eval_formula(f, _cells([case['col']]), addr='Sheet1!Z1')[0]
        want = N(pos) if pos else ('E', '#N/A')
        res.nontrivial = pos > 1
        if o != want:
            dup = len(set(map(str, col))) < len(col)
            where = ('below-all' if pos == 0 else 'above-all'
                     if pos == len(col) else 'equal' if key in col
                     else 'between')
            res.fail('MATCH1:%s%s' % (where, ':duplicates' if dup else ''),
                     want, o, f)
        return res
    if k == 'VLOOKUP':
        table, key, ci = case['table'], case['key'], case['col']
        ncols = len(table[0])
        row = next((r for r in table if eq_key(r[0], key)), None)
        cols = [[r[c] for r in table] for c in range(ncols)]
        f = '=VLOOKUP(%s,A1:%s%d,%d,FALSE)' % (
            lit(key), num_to_col(ncols), len(table), ci)
        o = lib.eval_formula(f, _cells(cols), addr='Sheet1!Z1')[0]
        res.nontrivial = row is not None and (ci > 2 or table.index(row) > 0)
        if ci > ncols or ci < 1:
            if o[0] != 'E':
                res.fail('VLOOKUP:column-outside-table', 'an error value', o,
                         f)
            return res
        want = tagv(row[ci - 1]) if row is not None else ('E', '#N/A')
        if o != want:
            keys = [r[0] for r in table]
            dup = sum(1 for x in keys if eq_key(x, key)) > 1
            cls = ('absent' if row is None else 'duplicate-key' if dup
                   else 'case-variant-key' if val(row[0]) != key
                   else 'col%s' % ('1' if ci == 1 else '2' if ci == 2
                                   else '>2'))
            res.fail('VLOOKUP:%s' % cls, want, o, f)
        return res
    # CHOOSE
    i, vals = case['i'], case['vals']
    want = tagv(vals[i - 1]) if 1 <= i <= len(vals) else ('E', '#VALUE!')
    if case['mode'] == 'call':
        o = lib.call_fn('CHOOSE', i, *vals)
        f = ['CHOOSE', i] + vals
    else:
        f = '=CHOOSE(%d,%s)' % (i, ','.join(lit(v) for v in vals))
        o = lib.eval_formula(f)[0]
    res.nontrivial = True
    if o != want:
        res.fail('CHOOSE:%s' % ('outside' if want[0] == 'E' else 'inside'),
                 want, o, f)
    return res
