"""C14 - aggregates over ranges equal the reference fold of the cells."""
import itertools
import math

from vf.core.runner import Result
from vf.core import lib
from vf.core.norm import close
from vf.gen.decode import decoded
from vf.ref.refeval import num_to_col

ID = 'C14'
LEVEL = 'exploration'
RULE = ('MIN/MAX are also compared EXACTLY (whole neighbours beyond 2^53 planted into the grid; argument order must not matter).  '
        'enumerated: a 2x3 rectangle in all 3^6 patterns of '
        '{distinct number, blank, non-numeric text} through SUM AVERAGE MIN '
        'MAX COUNT COUNTA (one range argument, and split into two '
        'sub-ranges) and SUMPRODUCT of the rectangle with a numeric twin; '
        'sampled (Hypothesis-decoded): rectangles up to 6x6 (thorough 12x12) '
        'of pairwise distinct ints/decimals/negatives, blanks and text, '
        'argument lists made of a random guillotine partition of the '
        'rectangle plus 0-3 numeric scalars in random order; SUMPRODUCT over '
        '2-3 equally shaped and over mismatched (also same-count) shapes.  '
        'Oracle: folds over the generator\'s grid; metamorphic relations on '
        "the library's own answers: argument permutation, permutation of "
        'contents within a range, SUM additive over the partition, '
        'MIN<=AVERAGE<=MAX.  Non-trivial = range with >=2 rows and >=2 '
        'columns or containing a blank or text, and >=2 numbers; distinct by '
        '(function, grid, argument list).')
ASSUMPTIONS = [
    'AVERAGE/MIN/MAX over no numbers at all, numeric text or booleans inside '
    'ranges, and text/boolean scalars as direct arguments are not generated',
    'tolerance 1e-12 relative (IEEE addition is not associative)',
]

AGGS = ['SUM', 'AVERAGE', 'MIN', 'MAX', 'COUNT', 'COUNTA']


OFFSET = [0]      # column at which the grid is anchored (0 = column A)


def addr(r, c):
    return '%s%d' % (num_to_col(c + 1 + OFFSET[0]), r + 1)


def rng(r1, c1, r2, c2):
    return '%s:%s' % (addr(r1, c1), addr(r2, c2))


def _partition(d, r1, c1, r2, c2, depth):
    """guillotine split into sub-rectangles (inclusive bounds)."""
    h, w = r2 - r1 + 1, c2 - c1 + 1
    if depth <= 0 or (h == 1 and w == 1) or d.pick(3) == 0:
        return [(r1, c1, r2, c2)]
    if (h > 1 and d.pick(2)) or w == 1:
        cut = r1 + d.pick(h - 1)
        return (_partition(d, r1, c1, cut, c2, depth - 1) +
                _partition(d, cut + 1, c1, r2, c2, depth - 1))
    cut = c1 + d.pick(w - 1)
    return (_partition(d, r1, c1, r2, cut, depth - 1) +
            _partition(d, r1, cut + 1, r2, c2, depth - 1))


def _grid(d, h, w):
    base = d.int(1, 40)
    vals = []
    k = 0
    for r in range(h):
        row = []
        for c in range(w):
            k += 1
            t = d.pick(11)
            if t == 0:
                row.append(None)
            elif t == 1:
                row.append(d.choice(['x', 'abc', 'n/a', 'q1', u'\xe9t\xe9',
                                     'TRUE?', 'e5', '1,5x']))
            elif t == 8:
                # zeros and integer-valued floats
                row.append(d.choice([0, 0.0, -0.0, float(base + 3 * k),
                                     # whole numbers whose PRODUCTS exceed
                                     # 2^63 (exact in floating point sums)
                                     3037000500, 4000000001, -5000000000]))
            elif t == 9:
                # a NUMBER PRODUCED BY A FORMULA: ['f', source, value]
                v = base + 3 * k
                row.append(d.choice([
                    ['f', '=%d*2' % v, 2 * v],
                    ['f', '=%d/4' % v, v / 4.0],
                    ['f', '=-%d' % v, -v],
                    ['f', '=%d-%d' % (v, v), 0]]))
            elif t == 10:
                # a TEXT produced by a formula
                row.append(d.choice([['f', '="a"&"b"', 'ab'],
                                     ['f', '="x"', 'x'],
                                     ['f', '=1&"z"', '1z']]))
            else:
                v = base + 3 * k
                if t == 2:
                    v = -v
                elif t == 3:
                    v = v + 0.25
                elif t == 4:
                    v = v / 8.0
                row.append(v)
        vals.append(row)
    return vals


def _build(d, maxdim):
    # anchor the rectangle so that it crosses the Z|AA or ZZ|AAA boundary
    OFFSET[0] = d.choice([0, 0, 0, 23, 24, 25, 700, 701])
    try:
        case = _build0(d, maxdim)
    finally:
        c0 = OFFSET[0]
        OFFSET[0] = 0
    case['c0'] = c0
    case['ds'] = d.choice([0, 0, 0, 1, 2, 3, 4])
    return case


def _build0(d, maxdim):
    h, w = d.int(1, maxdim), d.int(1, maxdim)
    if d.chance(1, 40):
        # rectangles of about 255 / 256 / 257 and more cells
        h, w = d.choice([(15, 17), (16, 16), (17, 16), (1, 256), (257, 1),
                         (20, 13), (3, 85), (2, 128)])
    if h * w > 64:
        # a large rectangle is tiled from a short drawn pattern (the byte
        # budget of a case pays for ~80 cells)
        pat = _grid(d, 1, 7)[0]
        grid = [[(pat[(r * w + c) % 7] + (r * w + c) if is_number(
            pat[(r * w + c) % 7]) and not isinstance(
                pat[(r * w + c) % 7], list) else pat[(r * w + c) % 7])
            for c in range(w)] for r in range(h)]
    else:
        grid = _grid(d, h, w)
    if d.pick(5) == 0:
        # SUMPRODUCT
        n = d.int(2, 3)
        kind = d.pick(4)
        h2, w2 = min(h, 3), min(w, 4)
        shapes = [(h2, w2)] * n
        if kind == 0 and h2 * w2 > 1:
            # mismatched; sometimes same cell count but other shape
            if d.pick(2) and h2 != w2:
                shapes[-1] = (w2, h2)
            else:
                shapes[-1] = (h2, max(1, w2 - 1)) if w2 > 1 else (h2 - 1, w2)
        grids = [_grid(d, max(hh, ww), max(hh, ww)) for hh, ww in shapes]
        return {'kind': 'sumproduct', 'grids': grids, 'shapes': shapes}
    parts = _partition(d, 0, 0, h - 1, w - 1, 3)
    args = [['r', rng(*p)] for p in parts]
    for _ in range(d.pick(4)):
        args.append(['n', d.choice([5, -3, 2.5, 0, 100, 7, 0.0025, 150.0,
                                    1250.0, 0.375])])
    if d.pick(5) == 0:
        # the SAME range (or scalar) named twice in one call
        args.append(list(args[d.pick(len(args))]))
    # permutation of the argument list by rotation + optional reversal
    rot = d.pick(len(args))
    args = args[rot:] + args[:rot]
    if d.pick(2):
        args.reverse()
    fn = d.choice(AGGS)
    if fn in ('MIN', 'MAX') and d.pick(3) == 0:
        # whole NEIGHBOURS that no double can tell apart, planted into two
        # (three) cells; one sign per grid, so that sums do not cancel
        a, b = d.choice([(2 ** 53, 2 ** 53 + 1), (10 ** 17, 10 ** 17 + 7),
                         (-(2 ** 53) - 1, -(2 ** 53)),
                         (2 ** 53 + 1, 2 ** 53 + 2)])
        trio = [a, b, d.choice([a, b, float(a) if float(a) == a else a])]
        for v in trio[:2 + d.pick(2)]:
            grid[d.pick(h)][d.pick(w)] = v
        if d.pick(2):
            # ... and one of them WRITTEN INTO THE FORMULA as a scalar
            args.insert(d.pick(len(args) + 1), ['n', d.choice([a, b])])
    case = {'kind': 'agg', 'fn': fn, 'grid': grid, 'args': args,
            'shuffle': d.pick(7)}
    if d.pick(3) == 0:
        # ranges of ANOTHER sheet (qualified) mixed with unqualified ones of
        # the formula's own sheet, in any order
        h2, w2 = d.int(1, 4), d.int(1, 4)
        case['grid2'] = _grid(d, h2, w2)
        parts2 = _partition(d, 0, 0, h2 - 1, w2 - 1, 2)
        for p2 in parts2:
            args.insert(d.pick(len(args) + 1), ['r2', rng(*p2)])
        case['shuffle'] = 0
    return case


def strategy(tier):
    m = 6 if tier == 'quick' else 12
    return decoded(lambda d: _build(d, m), min_size=24,
                   max_size=160 if tier == 'quick' else 400)


def budget(tier):
    return 12000 if tier == 'quick' else 600000


def enumerate_cases(tier, shard=0, nshards=1):
    nums = [3, 5, 7.5, -11, 13, 17]
    for i, pat in enumerate(itertools.product((0, 1, 2), repeat=6)):
        if i % nshards != shard:
            continue
        flat = [nums[j] if p == 0 else (None if p == 1 else 'x')
                for j, p in enumerate(pat)]
        grid = [flat[0:3], flat[3:6]]
        for fn in AGGS:
            yield {'kind': 'agg', 'fn': fn, 'grid': grid,
                   'args': [['r', 'A1:C2']], 'shuffle': 0}
            yield {'kind': 'agg', 'fn': fn, 'grid': grid,
                   'args': [['r', 'B1:C2'], ['r', 'A1:A2']], 'shuffle': 3}
        twin = [[2, 3, 4], [5, 6, 7]]
        yield {'kind': 'sumproduct', 'grids': [grid, twin],
               'shapes': [(2, 3), (2, 3)]}


# ------------------------------------------------------------------ oracle

def val(v):
    """the value of a grid entry (formula cells are ['f', source, value])"""
    return v[2] if isinstance(v, list) else v


def is_number(v):
    v = val(v)
    return isinstance(v, (int, float)) and not isinstance(v, bool)


def cells_of(grid, ref):
    a, b = ref.split(':')
    from vf.ref.refeval import split_a1, col_to_num
    c1, r1 = split_a1(a)
    c2, r2 = split_a1(b)
    out = []
    for r in range(r1 - 1, r2):
        for c in range(col_to_num(c1) - 1 - OFFSET[0],
                       col_to_num(c2) - OFFSET[0]):
            out.append(grid[r][c])
    return out


def fold(fn, grid, args, grid2=None, exact=False):
    nums, nonempty = [], 0
    for kind, a in args:
        if kind == 'n':
            nums.append(a)
            nonempty += 1
        else:
            for v in cells_of(grid2 if kind == 'r2' else grid, a):
                if is_number(v):
                    nums.append(val(v))
                if v is not None:
                    nonempty += 1
    if fn == 'COUNT':
        return float(len(nums))
    if fn == 'COUNTA':
        return float(nonempty)
    if fn == 'SUM':
        return math.fsum(nums)
    if not nums:
        return None
    if fn == 'AVERAGE':
        return math.fsum(nums) / len(nums)
    if exact:
        return min(nums) if fn == 'MIN' else max(nums)
    return float(min(nums) if fn == 'MIN' else max(nums))


def _whole(raw):
    """the exact whole number a result stands for (None: not whole)"""
    v = getattr(raw, 'value', raw)
    if isinstance(v, bool):
        return None
    if hasattr(v, 'item') and not isinstance(v, (int, float)):
        v = v.item()
    if isinstance(v, int):
        return v
    if isinstance(v, float) and v == v and abs(v) != float('inf') \
            and v.is_integer():
        return int(v)
    return None


def _cells(grid, sheet='Sheet1', r0=0, c0=0):
    out = {}
    for r, row in enumerate(grid):
        for c, v in enumerate(row):
            if v is not None:
                out['%s!%s' % (sheet, addr(r + r0, c + c0))] = (
                    v[1] if isinstance(v, list) else v)
    return out


DOLLARS = [0]     # how the corners of ranges are spelled in the formulas


def _dollar(a):
    import re
    k = DOLLARS[0]
    if not k:
        return a
    c1, r1, c2, r2 = re.match(r'([A-Z]+)(\d+):([A-Z]+)(\d+)$', a).groups()
    if k == 1:
        return '$%s$%s:$%s$%s' % (c1, r1, c2, r2)
    if k == 2:
        return '$%s%s:%s$%s' % (c1, r1, c2, r2)
    if k == 3:
        return '%s$%s:$%s%s' % (c1, r1, c2, r2)
    return '$%s%s:$%s%s' % (c1, r1, c2, r2)


# scalars that are WRITTEN in scientific notation with a fractional
# mantissa and a signed exponent
SCI = {0.0025: '2.5E-3', 150.0: '1.5e+2', 1250.0: '1.25E+3',
       0.375: '3.75E-1'}


def _render(fn, args):
    return '=%s(%s)' % (fn, ','.join(
        _dollar(a) if k == 'r' else ('Other!' + _dollar(a)) if k == 'r2'
        else SCI[a] if isinstance(a, float) and a in SCI
        else repr(a) for k, a in args))


def _permute_grid(grid, k):
    flat = [v for row in grid for v in row]
    n = len(flat)
    if n < 2:
        return grid
    k = 1 + k % (n - 1)
    flat = flat[k:] + flat[:k]
    w = len(grid[0])
    return [flat[i * w:(i + 1) * w] for i in range(len(grid))]


def judge(case):
    OFFSET[0] = case.get('c0', 0)
    DOLLARS[0] = case.get('ds', 0)
    try:
        return _judge(case)
    finally:
        OFFSET[0] = 0
        DOLLARS[0] = 0


def _judge(case):
    res = Result()
    if case['kind'] == 'sumproduct':
        return _judge_sp(case, res)
    fn, grid, args = case['fn'], case['grid'], case['args']
    h, w = len(grid), len(grid[0])
    grid2 = case.get('grid2')
    exp = fold(fn, grid, args, grid2)
    flat = [v for row in grid for v in row] + (
        [v for row in grid2 for v in row] if grid2 else [])
    nnum = sum(1 for v in flat if is_number(v))
    has_gap = any(v is None or isinstance(val(v), str) for v in flat)
    res.labels = (fn, 'args:%d' % min(len(args), 6),
                  'gap' if has_gap else 'dense') + (
                      ('two-sheets',) if grid2 else ())
    if exp is None:
        res.labels += ('no-numbers-skipped',)
        return res
    res.nontrivial = ((h >= 2 and w >= 2) or has_gap) and nnum >= 2
    cells = _cells(grid)
    if grid2:
        cells.update(_cells(grid2, sheet='Other'))
    F = 'Sheet1!'
    cells[F + 'XFA1'] = _render(fn, args)
    cells[F + 'XFA2'] = _render(fn, list(reversed(args)))
    cells[F + 'XFA3'] = _render('MIN', args)
    cells[F + 'XFA4'] = _render('AVERAGE', args)
    cells[F + 'XFA5'] = _render('MAX', args)
    cells[F + 'XFA6'] = '=SUM(%s)' % rng(0, 0, h - 1, w - 1)
    cells[F + 'XFA7'] = _render('SUM', [a for a in args if a[0] == 'r'])
    if not any(a[0] == 'r' for a in args):
        cells[F + 'XFA7'] = cells[F + 'XFA6']
    try:
        model = lib.compile_dict(cells)
    except Exception as err:  # noqa: BLE001
        from vf.core.norm import exc_tag
        t = exc_tag(err)
        res.fail('compile-exception:%s:%s' % (t[1], t[2]), 'model', t)
        return res
    xl = lib.lib()
    ev = xl.Evaluator(model)
    obs = lib.evaluate(model, F + 'XFA1', ev)
    want = ('N', float(exp))
    cls = 'gap' if has_gap else 'dense'
    if not close(obs, want, rel=1e-12):
        if obs[0] == 'X':
            res.fail('exception:%s:%s:%s' % (fn, obs[1], cls), want, obs,
                     cells[F + 'XFA1'])
        else:
            res.fail('fold:%s:%s%s' % (fn, cls, ':two-sheets' if grid2
                                       else ''), want, obs, cells[F + 'XFA1'])
        return res
    # metamorphic relations on the library's own answers
    rev = lib.evaluate(model, F + 'XFA2', ev)
    if not close(obs, rev, rel=1e-12):
        res.fail('permute-args:%s' % fn, obs, rev, cells[F + 'XFA2'])
    if fn in ('MIN', 'MAX'):
        # selection is EXACT: the extreme is one of the addressed values,
        # also among whole numbers that no tolerance can tell apart
        # (2^53 and 2^53+1), and whatever the order of the arguments
        e = fold(fn, grid, args, grid2, exact=True)
        ew = _whole(e)
        try:
            r1 = _whole(ev.evaluate(F + 'XFA1'))
            r2 = _whole(ev.evaluate(F + 'XFA2'))
        except Exception:  # noqa: BLE001 - reported above
            r1 = r2 = None
        if ew is not None and r1 is not None and r1 != ew:
            res.fail('fold-exact:%s' % fn, str(ew), str(r1),
                     cells[F + 'XFA1'])
        elif r1 is not None and r2 is not None and r1 != r2:
            res.fail('permute-args-exact:%s' % fn, str(r1), str(r2),
                     cells[F + 'XFA2'])
    if nnum + sum(1 for a in args if a[0] == 'n') > 0:
        mn, av, mx = (lib.evaluate(model, F + 'XFA%d' % i, ev)
                      for i in (3, 4, 5))
        if all(t[0] == 'N' and isinstance(t[1], float)
               for t in (mn, av, mx)):
            tol = 1e-12 * max(abs(mn[1]), abs(mx[1]), 1.0)
            if not (mn[1] - tol <= av[1] <= mx[1] + tol):
                res.fail('min-avg-max', 'MIN<=AVERAGE<=MAX', [mn, av, mx])
        else:
            res.fail('min-avg-max-nonnumeric:%s' % cls, 'numbers',
                     [mn, av, mx])
    whole = lib.evaluate(model, F + 'XFA6', ev)
    parts = lib.evaluate(model, F + 'XFA7', ev)
    rngs = [tuple(a) for a in args if a[0] == 'r']
    if len(set(rngs)) < len(rngs):
        pass        # a range named twice: the parts no longer tile the whole
    elif not close(whole, parts, rel=1e-12):
        res.fail('sum-additive', whole, parts, cells[F + 'XFA7'])
    # permutation of contents within the rectangle (single model, new cells)
    if case.get('shuffle'):
        g2 = _permute_grid(grid, case['shuffle'])
        c2 = _cells(g2)
        c2[F + 'XFA1'] = '=%s(%s)' % (fn, rng(0, 0, h - 1, w - 1))
        c1 = _cells(grid)
        c1[F + 'XFA1'] = c2[F + 'XFA1']
        o1, _ = lib.eval_formula(c1[F + 'XFA1'], c1, addr=F + 'XFA1')
        o2, _ = lib.eval_formula(c2[F + 'XFA1'], c2, addr=F + 'XFA1')
        if not close(o1, o2, rel=1e-12):
            res.fail('permute-contents:%s' % fn, o1, o2)
    return res


def _judge_sp(case, res):
    grids, shapes = case['grids'], [tuple(x) for x in case['shapes']]
    cells = {}
    refs = []
    vals = []
    for i, (g, (h, w)) in enumerate(zip(grids, shapes)):
        c0 = i * 8
        sub = [row[:w] for row in g[:h]]
        cells.update(_cells(sub, c0=c0))
        refs.append(rng(0, c0, h - 1, c0 + w - 1))
        vals.append([v for row in sub for v in row])
    same = len(set(shapes)) == 1
    flat_all = [v for vs in vals for v in vs]
    has_gap = any(not is_number(v) for v in flat_all)
    if same:
        total = math.fsum(
            math.prod((val(v) if is_number(v) else 0) for v in tup)
            for tup in zip(*vals))
        want = ('N', float(total))
    else:
        want = ('E', '#VALUE!')
    f = '=SUMPRODUCT(%s)' % ','.join(refs)
    obs, stage = lib.eval_formula(f, cells, addr='Sheet1!AZ1')
    res.labels = ('SUMPRODUCT', 'same-shape' if same else 'mismatch',
                  'gap' if has_gap else 'dense')
    res.nontrivial = (not same) or (has_gap and len(vals[0]) >= 2) or (
        shapes[0][0] >= 2 and shapes[0][1] >= 2)
    if not close(obs, want, rel=1e-12):
        cls = ('mismatch-samecount' if not same and len(set(
            h * w for h, w in shapes)) == 1 else 'mismatch') if not same \
            else ('gap' if has_gap else 'dense')
        if obs[0] == 'X':
            res.fail('exception:SUMPRODUCT:%s:%s' % (obs[1], cls), want, obs,
                     f)
        else:
            res.fail('fold:SUMPRODUCT:%s' % cls, want, obs, f)
    return res
