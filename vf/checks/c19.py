"""C19 - base conversions are exact 10-digit two's-complement conversions."""
from hypothesis import strategies as st

from vf.core.runner import Result
from vf.core import lib
from vf.ref import bases as rb

ID = 'C19'
LEVEL = 'exploration'
EXHAUSTIVE = {'quick': False, 'thorough': False}
RULE = ('enumerated: every integer -516..515 x places {omitted,1..10,0,11,-1} '
        'through the six functions touching binary as direct calls '
        '(xl.FUNCTIONS after a plain import xlcalculator), plus formulas for '
        'places omitted/10; window edges +-4 of the octal/hex windows through '
        'all twelve functions; sampled: Hypothesis draws (function, integer '
        'of the 40-bit range or digit string incl. invalid classes, places, '
        'spelling, call/formula) and round trips. Non-trivial = negative '
        'value, value within 4 of a window edge, result needing padding, or '
        'invalid input; distinct by (function, argument, places, mode).')
ASSUMPTIONS = [
    'reference = Python int/format arithmetic (vf/ref/bases.py)',
    'non-integer decimal inputs, blank and empty-text arguments and '
    'fractional places are not generated (statement silent); whole places '
    'are also passed as floats and as numeric text',
]

BIN_FUNCS = ['DEC2BIN', 'BIN2DEC', 'BIN2OCT', 'BIN2HEX', 'OCT2BIN', 'HEX2BIN']
PLACES = [None, 1, 2, 3, 4, 5, 6, 7, 8, 9, 10, 0, 11, -1]


def _arg_for(fn, v):
    src = fn.split('2')[0]
    if src == 'DEC':
        return v
    w = rb.window(src)
    if not (w[0] <= v <= w[1]):
        return None
    return rb.digits_of(src, v)


def enumerate_cases(tier):
    for fn in BIN_FUNCS:
        takes_places = not fn.endswith('DEC')
        for v in range(-516, 516):
            arg = _arg_for(fn, v)
            if arg is None:
                continue
            for pl in (PLACES if takes_places else [None]):
                yield {'fn': fn, 'arg': arg, 'places': pl, 'mode': 'call',
                       'spell': 'native'}
            for pl in ([None, 10] if takes_places else [None]):
                yield {'fn': fn, 'arg': arg, 'places': pl, 'mode': 'formula',
                       'spell': 'native'}
    # a BLANK where the number is expected counts as 0 (padded like 0)
    for fn in BIN_FUNCS:
        if not fn.startswith('DEC'):
            continue
        for pl in PLACES:
            for mode in ('call', 'formula'):
                yield {'fn': fn, 'arg': 0, 'places': pl, 'mode': mode,
                       'spell': 'blank'}
    edges = []
    for e in (-(1 << 29), (1 << 29) - 1, -(1 << 39), (1 << 39) - 1,
              -512, 511, 0):
        edges.extend(range(e - 4, e + 5))
    for fn in rb.FUNCS:
        takes_places = not fn.endswith('DEC')
        for v in edges:
            arg = _arg_for(fn, v)
            if arg is None:
                continue
            for pl in ([None, 10, 3] if takes_places else [None]):
                for mode in ('call', 'formula'):
                    yield {'fn': fn, 'arg': arg, 'places': pl, 'mode': mode,
                           'spell': 'native'}
            yield {'fn': 'RT:' + fn, 'arg': arg, 'places': None,
                   'mode': 'call', 'spell': 'native'}


@st.composite
def _cases(draw):
    fn = draw(st.sampled_from(rb.FUNCS))
    src = fn.split('2')[0]
    kind = draw(st.sampled_from(
        ['valid', 'valid', 'valid', 'edge', 'invalid', 'bool', 'roundtrip']))
    takes_places = not fn.endswith('DEC')
    places = None
    if takes_places:
        places = draw(st.one_of(st.none(), st.integers(1, 10),
                                st.sampled_from([0, 11, -1, 12, -5])))
    mode = draw(st.sampled_from(['call', 'call', 'formula']))
    spell = 'native'
    if kind == 'bool':
        which = draw(st.sampled_from(['arg', 'places'] if takes_places
                                     else ['arg']))
        b = draw(st.booleans())
        v = draw(st.integers(-10, 10))
        # which of two simultaneous errors wins is not specified: the other
        # argument is kept valid
        if places is not None and not (1 <= places <= 10):
            places = 10
        arg = _arg_for(fn, v)
        if which == 'arg':
            return {'fn': fn, 'arg': b, 'places': places, 'mode': mode,
                    'spell': 'boolarg'}
        return {'fn': fn, 'arg': arg, 'places': b, 'mode': mode,
                'spell': 'boolplaces'}
    if kind == 'invalid' and src != 'DEC':
        base = draw(st.text(alphabet=rb.DIGITS[src], min_size=1, max_size=9))
        cls = draw(st.sampled_from(
            ['baddigit', 'dot', 'sign', 'blank', 'eleven', 'letter',
             'white', 'unicode']))
        pos = draw(st.integers(0, len(base)))
        if cls == 'baddigit':
            bad = {'BIN': '2', 'OCT': '8', 'HEX': 'G'}[src]
            s = base[:pos] + bad + base[pos:]
        elif cls == 'dot':
            s = base + '.' + draw(st.sampled_from(['1', '5', '01']))
        elif cls == 'sign':
            s = draw(st.sampled_from(['-', '+'])) + base
        elif cls == 'blank':
            s = base[:pos] + ' ' + base[pos:]
        elif cls == 'unicode':
            # characters that int(), str.upper() or normalisation would turn
            # into digits: full-width and Arabic-Indic digits, the ff
            # ligature (upper() gives 'FF'), superscripts, full-width letters
            u = draw(st.sampled_from([u'\uff11', u'\u0661', u'\ufb00',
                                      u'\xb2', u'\uff21', u'\uff10',
                                      u'\u0660', u'\u2160']))
            s = draw(st.sampled_from([base[:pos] + u + base[pos:], u,
                                      u * 2, base + u]))
        elif cls == 'white':
            # white space other than the blank, at either end or inside
            w = draw(st.sampled_from(['\n', '\t', '\r', u'\xa0', '\n\n',
                                      u'\u2003', '\x0b']))
            s = draw(st.sampled_from([base + w, w + base,
                                      base[:pos] + w + base[pos:]]))
        elif cls == 'eleven':
            s = draw(st.text(alphabet=rb.DIGITS[src], min_size=11,
                             max_size=12))
        else:
            s = base[:pos] + draw(st.sampled_from(['z', 'Z', 'x', '_'])) + \
                base[pos:]
        return {'fn': fn, 'arg': s, 'places': places, 'mode': mode,
                'spell': 'invalid'}
    if kind == 'edge':
        e = draw(st.sampled_from([-(1 << 29), (1 << 29) - 1, -(1 << 39),
                                  (1 << 39) - 1, -512, 511]))
        v = e + draw(st.integers(-4, 4))
    else:
        mag = draw(st.sampled_from([9, 12, 29, 32, 39, 41]))
        v = draw(st.integers(-(1 << mag), (1 << mag)))
    arg = _arg_for(fn, v)
    if arg is None:
        # value not representable in the source base: use a valid in-window
        # digit string instead (keeps the generator filter-free)
        w = rb.window(src)
        v = max(w[0], min(w[1], v))
        arg = _arg_for(fn, v)
    if kind == 'roundtrip':
        return {'fn': 'RT:' + fn, 'arg': arg, 'places': None, 'mode': 'call',
                'spell': 'native'}
    if src != 'DEC':
        spell = draw(st.sampled_from(['native', 'lower', 'number', 'Text',
                                      'floatnum', 'npint', 'NumberNp']))
        if spell == 'lower':
            arg = arg.lower()
        if spell in ('number', 'floatnum', 'npint', 'NumberNp') and not (
                arg.isdigit() and len(arg) <= 10):
            spell = 'native'
    else:
        spell = draw(st.sampled_from(['native', 'float', 'Number', 'text',
                                      'npint', 'NumberNp']))
    # other KINDS of the same 'places' value: a float, numeric text
    pspell = draw(st.sampled_from(['int', 'int', 'float', 'text']))
    return {'fn': fn, 'arg': arg, 'places': places, 'mode': mode,
            'spell': spell, 'pspell': pspell}


def strategy(tier):
    return _cases()


def budget(tier):
    return 30000 if tier == 'quick' else 1500000


def _lit(x):
    if isinstance(x, bool):
        return 'TRUE' if x else 'FALSE'
    if isinstance(x, str):
        return '"' + x.replace('"', '""') + '"'
    return repr(x)


def _spelled(case):
    xl = lib.lib()
    arg, spell = case['arg'], case['spell']
    if spell == 'float':
        return float(arg)
    if spell == 'Number':
        return xl.Number(arg)
    if spell == 'text':
        return str(arg)
    if spell == 'number':
        return int(arg)
    if spell == 'floatnum':
        return float(int(arg))      # the digits as a float: 110.0
    if spell in ('npint', 'NumberNp'):
        # the same whole number as a numpy integer scalar (what a cell holds
        # after numpy arithmetic), bare or wrapped
        import numpy
        v = numpy.int64(int(arg))
        return v if spell == 'npint' else xl.Number(v)
    if spell == 'Text':
        return xl.Text(arg)
    if spell == 'blank':
        return None
    return arg


def observe(fn, arg, places, mode, spell='native'):
    if mode == 'call' or spell in ('npint', 'NumberNp'):
        args = [arg] + ([] if places is None else [places])
        return lib.call_fn(fn, *args)
    if spell in ('float',):
        a = repr(float(arg))
    elif spell in ('text', 'Text') and not isinstance(arg, str):
        a = _lit(str(arg))
    elif spell == 'number':
        a = str(int(arg))
    elif spell == 'floatnum':
        a = repr(float(int(arg)))
    elif spell == 'blank':
        a = 'K9'        # a cell nobody has written to
    else:
        a = _lit(arg)
    f = '=%s(%s%s)' % (fn, a, '' if places is None else ',' + _lit(places))
    tag, stage = lib.eval_formula(f)
    return tag


def judge(case):
    res = Result()
    fn = case['fn']
    if fn.startswith('RT:'):
        return _roundtrip(case, res)
    arg, places, mode, spell = (case['arg'], case['places'], case['mode'],
                                case['spell'])
    src = fn.split('2')[0]
    arg_is_bool = isinstance(arg, bool)
    pl_is_bool = isinstance(places, bool)
    ref_arg = arg
    if src == 'DEC' and not arg_is_bool:
        ref_arg = int(arg)
    elif not arg_is_bool:
        ref_arg = str(arg)
    exp = rb.convert(fn, ref_arg, None if pl_is_bool else places,
                     arg_is_bool, pl_is_bool)
    spelled = arg if arg_is_bool else _spelled(case)
    pobs = places
    if isinstance(places, int) and not pl_is_bool:
        if case.get('pspell') == 'float':
            pobs = float(places)
        elif case.get('pspell') == 'text':
            pobs = str(places)
    obs = observe(fn, spelled if mode == 'call' else arg, pobs, mode, spell)
    # non-triviality
    nt = spell in ('invalid', 'boolarg', 'boolplaces')
    if not nt and not arg_is_bool:
        v = ref_arg if src == 'DEC' else rb.parse_digits(src, ref_arg)
        if v is not None:
            near = any(abs(v - e) <= 4 for e in (
                -512, 511, -(1 << 29), (1 << 29) - 1, -(1 << 39),
                (1 << 39) - 1))
            pad = (exp[0] == 'T' and places is not None and v >= 0
                   and len(rb.digits_of(fn.split('2')[1], v)) < places)
            nt = v < 0 or near or pad
    res.nontrivial = nt
    res.labels = (mode, 'spell:' + spell, 'exp:' + exp[0] + (
        exp[1] if exp[0] == 'E' else ''))
    if obs != exp:
        res.fail(_bucket(fn, exp, obs, case), exp, obs)
    return res


def _bucket(fn, exp, obs, case):
    if obs[0] == 'X' and obs[1] == 'KeyError' and (
            'FUNCTIONS' in obs[2] or 'ast_nodes' in obs[2]):
        if not lib.has_fn(fn):
            return 'unregistered-after-plain-import'
    if obs[0] == 'X':
        return 'exception:%s:%s:%s' % (obs[1], obs[2], case['spell'])
    if exp[0] == 'E':
        return 'missing-error:%s:%s:%s' % (fn, exp[1], case['spell'])
    if obs[0] == 'E':
        return 'spurious-error:%s:%s:%s' % (fn, obs[1], case['spell'])
    return 'wrong-digits:%s:%s' % (fn, case['spell'])


def _roundtrip(case, res):
    fn = case['fn'][3:]
    src, dst = fn.split('2')
    inv = dst + '2' + src
    arg = case['arg']
    first = rb.convert(fn, arg)
    if first[0] == 'E':
        res.labels = ('roundtrip-outside-window',)
        return res
    o1 = lib.call_fn(fn, arg)
    res.labels = ('roundtrip',)
    if o1 != first:
        res.fail(_bucket(fn, first, o1, case), first, o1)
        return res
    mid = o1[1] if o1[0] == 'T' else int(o1[1])
    o2 = lib.call_fn(inv, mid)
    want = ('N', float(arg)) if src == 'DEC' else ('T', str(arg).upper())
    res.nontrivial = True
    if o2 != want:
        res.fail('roundtrip:%s' % fn, want, o2)
    return res
