"""C11 - a workbook file loads into a model with the same cells and formulas."""
import datetime
import os
import re
import shutil
import tempfile

from vf.core.runner import Result
from vf.core import lib
from vf.core.norm import norm, root_exc, exc_tag, close
from vf.gen import xlsxmin
from vf.gen.decode import decoded
from vf.ref import refeval as R

ID = 'C11'
LEVEL = 'exploration'
RULE = ('sampled (Hypothesis-decoded): abstract workbooks rendered to .xlsx '
        'by vf/gen/xlsxmin.py: 1-4 sheets (names with blanks, apostrophes, '
        'hyphens, digits first, non-ASCII), every SpreadsheetML cell storage '
        'form (n, s, str, inlineStr, b, e, date style, formula with cached '
        'value of each type, formula without cached value, shared-formula '
        'master with ref + members in vertical, horizontal and 2-D blocks '
        'with relative, mixed, absolute and cross-sheet references), defined '
        'names for single cells and ranges on plain and quoted sheets, every '
        'subset of sheets as ignore_sheets.  Oracle: the abstract workbook - '
        'Model.cells = exactly the stored cells of the non-ignored sheets '
        'keyed Sheet!A1; constants equal; formula text = the master\'s text '
        'translated to the member\'s position; get_cell_value before any '
        'evaluation = cached value; defined names bound to the cell / range '
        'matrix; every formula cell evaluates as in a model built with '
        'read_and_parse_dict from the same contents and as the reference '
        'evaluator says.  Non-trivial = >= 2 sheets or a shared group or a '
        'name or an ignored sheet, and >= 3 storage forms; distinct by '
        'workbook.')
ASSUMPTIONS = [
    'files are produced by the harness\'s writer, not by Excel (rich text, '
    'array formulas, external links are not modelled)',
    'for constant error cells (t="e") only presence and the code text are '
    'asserted; single-cell names are bound to stored cells, range names may '
    'cover unstored addresses and ignored sheets (they create no cells: '
    'blank extra cells are tolerated only under ranges written in formulas)',
]
CASE_LIMIT_S = 60
SHEETS = ['Sheet1', 'Data', 'My Sheet', "It's", 'Q-1', u'Blätter', '2024']
TEXTS = ['abc', 'hello world', u'héllo', 'a&b<c>', '"quoted"', "it's",
         ' padded ', 'x', 'TRUE', '123', u'日本', 'line1\nline2',
         # TEXT that looks like a formula: stored as text, it stays text
         '=A1*21', '=not a formula', '=']
CODES = ['#N/A', '#DIV/0!', '#VALUE!', '#REF!', '#NAME?', '#NUM!', '#NULL!']
TMP = [None]


def tmpdir():
    if TMP[0] is None:
        TMP[0] = tempfile.mkdtemp(prefix='vf_c11_')
        import atexit
        atexit.register(shutil.rmtree, TMP[0], True)
    return TMP[0]


def needs_quote(name):
    return not (name.replace('_', 'a').isalnum() and name.isascii()
                and not name[0].isdigit())


def q(name):
    return "'" + name.replace("'", "''") + "'" if needs_quote(name) else name


REF_RE = re.compile(r"(\$?)([A-Z]{1,3})(\$?)(\d+)")


def shift(formula, dr, dc):
    """translate the relative parts of every A1 reference (outside quotes)"""
    out = []
    parts = re.split(r"('(?:[^']|'')*'!)", formula)
    for part in parts:
        if part.startswith("'") and part.endswith("!"):
            out.append(part)
            continue

        def rep(m):
            cabs, col, rabs, row = m.groups()
            c = R.col_to_num(col) + (0 if cabs else dc)
            r = int(row) + (0 if rabs else dr)
            return '%s%s%s%d' % (cabs, R.num_to_col(c), rabs, r)
        out.append(REF_RE.sub(rep, part))
    return ''.join(out)


def _build(d):
    ns = d.int(1, 4)
    pool = list(SHEETS)
    names = [pool.pop(d.pick(len(pool))) for _ in range(ns)]
    sheets = []
    # numeric anchors every formula can point to
    for si, n in enumerate(names):
        cells = {}
        for r in range(1, 4):
            for c in range(1, 4):
                if d.pick(3):
                    cells['%s%d' % (R.num_to_col(c), r)] = {
                        'kind': 'n', 'v': (si + 1) * 100 + r * 10 + c
                        + (0.5 if d.pick(5) == 0 else 0)}
        cells.setdefault('A1', {'kind': 'n', 'v': (si + 1) * 100 + 11})
        if d.pick(3) == 0:
            # far corners of the sheet (3-letter columns, the last row)
            for far in (d.choice(['AAA1', 'ABC7', 'XFD1', 'ZZ3', 'AA2']),
                        d.choice(['A1048576', 'XFD1048576', 'B65537'])):
                cells[far] = {'kind': 'n', 'v': (si + 1) * 1000 + len(cells)}
        sheets.append({'name': n, 'cells': cells})
    for si, sh in enumerate(sheets):
        cells = sh['cells']
        # other constants in column E
        for r in range(1, d.int(1, 7)):
            k = d.choice(['s', 'str', 'inlineStr', 'b', 'e', 'date', 'n',
                          's', 'empty'])
            a = 'E%d' % r
            if k == 'empty':
                # a stored cell WITHOUT a value (<c r=".." s="1"/>)
                cells[a] = {'kind': 'empty'}
            elif k in ('s', 'str', 'inlineStr'):
                cells[a] = {'kind': k, 'v': d.choice(TEXTS)}
                if k != 'str' and d.pick(6) == 0:
                    # a stored text cell whose text is EMPTY: a text, not a
                    # blank
                    cells[a]['v'] = ''
            elif k == 'b':
                cells[a] = {'kind': 'b', 'v': bool(d.pick(2))}
            elif k == 'e':
                # constant error cells load as the code's text (not asserted
                # beyond presence): kept out of reach of every formula
                cells['G%d' % r] = {'kind': 'e', 'v': d.choice(CODES)}
            elif k == 'date':
                cells[a] = {'kind': 'date', 'v': d.int(30000, 50000)}
            else:
                cells[a] = {'kind': 'n', 'v': d.choice([0, -1.5, 1e300,
                                                        5e-324, 42])}
        # plain formulas in column F
        for r in range(1, d.int(1, 6)):
            f = _formula(d, sheets, si)
            c = {'kind': 'f', 'f': f}
            t = d.pick(6)
            if t == 1:
                c.update(cached=d.int(1, 99), ctype='n')
            elif t == 2:
                c.update(cached=d.choice(TEXTS[:6]),
                         ctype=d.choice(['str', 'str', 'inlineStr']))
            elif t == 3:
                c.update(cached=bool(d.pick(2)), ctype='b')
            elif t == 4:
                c.update(cached=d.choice(CODES), ctype='e')
            elif t == 5:
                c.update(cached=2.5, ctype='n')
            cells['F%d' % r] = c
        # shared groups in H..K
        si_counter = 0
        for g in range(d.pick(3)):
            shape = d.choice([(3, 1), (1, 3), (2, 2), (2, 1)])
            r0, c0 = 1 + 4 * g, 8
            master = _formula(d, sheets, si, shared=True)
            ref = '%s%d:%s%d' % (R.num_to_col(c0), r0,
                                 R.num_to_col(c0 + shape[1] - 1),
                                 r0 + shape[0] - 1)
            for dr in range(shape[0]):
                for dc in range(shape[1]):
                    a = '%s%d' % (R.num_to_col(c0 + dc), r0 + dr)
                    cached = d.int(1, 50) if d.pick(2) else None
                    if dr == 0 and dc == 0:
                        cells[a] = {'kind': 'shared-master', 'f': master,
                                    'ref': ref, 'si': si_counter,
                                    'cached': cached, 'ctype': 'n',
                                    'expect': master}
                    else:
                        cells[a] = {'kind': 'shared-member',
                                    'si': si_counter, 'cached': cached,
                                    'ctype': 'n',
                                    'expect': shift(master, dr, dc)}
            si_counter += 1
    wbnames = []
    for j in range(d.pick(4)):
        sh = d.choice(sheets)
        if d.pick(2):
            a = d.choice(sorted(sh['cells']))
            c, r = R.split_a1(a)
            wbnames.append({'name': 'Nm%d' % j, 'sheet': sh['name'],
                            'a1': a, 'ref': '%s!$%s$%d' % (q(sh['name']), c,
                                                           r)})
        else:
            r1, c1 = d.int(1, 2), d.int(1, 2)
            r2, c2 = r1 + d.int(0, 2), c1 + d.int(0, 2)
            if d.pick(4) == 0:
                # a range beyond column ZZ / crossing Z|AA
                c1 = d.choice([25, 26, 701, 702, 703, 16380])
                c2 = c1 + d.int(1, 3)
            wbnames.append({'name': 'Rg%d' % j, 'sheet': sh['name'],
                            'rect': [r1, c1, r2, c2],
                            'ref': '%s!$%s$%d:$%s$%d' % (
                                q(sh['name']), R.num_to_col(c1), r1,
                                R.num_to_col(c2), r2)})
    ignore = []
    if ns > 1 and d.pick(3) == 0:
        ignore = [s['name'] for s in sheets[1:] if d.pick(2)]
    # the collection type in which the ignored sheets are handed over
    return {'sheets': sheets, 'names': wbnames, 'ignore': ignore,
            # the workbook may use the 1904 date system (workbookPr)
            'd1904': d.pick(5) == 0,
            'igtype': d.choice(['list', 'list', 'tuple', 'set',
                                'frozenset'])}


def _formula(d, sheets, si, shared=False):
    own = sheets[si]

    def ref():
        t = own if d.pick(3) else d.choice(sheets)
        a = d.choice(['A1', 'A2', 'B1', 'B2', 'C3', 'A3', 'C1'])
        c, r = R.split_a1(a)
        k = d.pick(4)
        body = [a, '$%s$%d' % (c, r), '$%s%d' % (c, r), '%s$%d' % (c, r)][k]
        if t is own and d.pick(3):
            return body
        return q(t['name']) + '!' + body
    k = d.pick(5)
    if k == 0:
        return '%s*2' % ref()
    if k == 1:
        return '%s+%s' % (ref(), ref())
    if k == 2:
        t = own if d.pick(2) else d.choice(sheets)
        pre = '' if t is own and d.pick(2) else q(t['name']) + '!'
        return 'SUM(%sA1:%s)' % (pre, d.choice(['B2', 'C3', 'A3', '$C$2']))
    if k == 3:
        return 'IF(%s>%d,%s,"small")' % (ref(), d.int(100, 400), ref())
    return '%s-%s+%d' % (ref(), ref(), d.int(1, 9))


def strategy(tier):
    return decoded(_build, min_size=64, max_size=260)


def budget(tier):
    return 3200 if tier == 'quick' else 100000


# ------------------------------------------------------------------- judge

EPOCH = [datetime.datetime(1899, 12, 30)]      # per case (1904 system)


def const_tag(c):
    k = c['kind']
    if k == 'empty':
        return ('Z',)
    if k == 'n':
        return ('N', float(c['v']))
    if k in ('s', 'str', 'inlineStr'):
        return ('T', c['v'])
    if k == 'b':
        return ('B', bool(c['v']))
    if k == 'date':
        return ('D', (EPOCH[0] + datetime.timedelta(
            days=c['v'])).isoformat())
    return None


def cached_tag(c):
    if c.get('cached') is None:
        return ('Z',)
    t = c.get('ctype', 'n')
    v = c['cached']
    if t == 'n':
        return ('N', float(v))
    if t in ('str', 'inlineStr'):
        return ('T', v)
    if t == 'b':
        return ('B', bool(v))
    return ('T', v)     # an error code is handed over as its text


def squash(f):
    return re.sub(r'\s+', '', f)


def judge(case):
    EPOCH[0] = (datetime.datetime(1904, 1, 1) if case.get('d1904')
                else datetime.datetime(1899, 12, 30))
    try:
        return _judge(case)
    finally:
        EPOCH[0] = datetime.datetime(1899, 12, 30)


def _judge(case):
    res = Result()
    xl = lib.lib()
    sheets, wbnames, ignore = case['sheets'], case['names'], case['ignore']
    fn = os.path.join(tmpdir(), 'wb%d.xlsx' % os.getpid())
    wb = {'sheets': [{'name': s['name'], 'cells': {
        a: {k: v for k, v in c.items() if k != 'expect'}
        for a, c in s['cells'].items()}} for s in sheets],
        # (names pointing into ignored sheets stay in the workbook)
        'names': [{'name': n['name'], 'ref': n['ref']} for n in wbnames],
        'date1904': bool(case.get('d1904'))}
    kinds = {c['kind'] for s in sheets for c in s['cells'].values()}
    shared = any(k.startswith('shared') for k in kinds)
    res.labels = ('sheets:%d' % len(sheets),) + (
        ('shared',) if shared else ()) + (('names',) if wbnames else ()) + (
        ('ignore',) if ignore else ())
    res.nontrivial = (len(sheets) >= 2 or shared or bool(wbnames)
                      or bool(ignore)) and len(kinds) >= 3
    try:
        xlsxmin.write(fn, wb)
        model = xl.ModelCompiler().read_and_parse_archive(
            fn, ignore_sheets={'list': list, 'tuple': tuple, 'set': set,
                               'frozenset': frozenset}[
                                   case.get('igtype', 'list')](ignore))
    except Exception as err:  # noqa: BLE001
        t = exc_tag(err)
        res.fail('load-exception:%s:%s' % (t[1], t[2]), 'model', t,
                 sorted(kinds))
        return res
    finally:
        try:
            os.remove(fn)
        except OSError:
            pass
    # 1. exactly the stored cells of the non-ignored sheets (cells that
    #    build_ranges materialises for referenced ranges are blank extras)
    want = {}
    for s in sheets:
        if s['name'] in ignore:
            continue
        for a, c in s['cells'].items():
            want[s['name'] + '!' + a] = c
    missing = sorted(a for a in want if a not in model.cells)
    if missing:
        res.fail('stored-cell-missing:%s' % want[missing[0]]['kind'],
                 missing[:5], 'absent')
        return res
    # (blank extras only where a range WRITTEN IN A FORMULA covers an
    # unstored address; a defined name creates no cells)
    covered = set()
    import re
    rx = re.compile(r"(?:('(?:[^']|'')+'|[A-Za-z0-9_.]+)!)?"
                    r"\$?([A-Z]{1,3})\$?(\d+):\$?([A-Z]{1,3})\$?(\d+)")
    for a_, c_ in want.items():
        ftxt = c_.get('expect') or c_.get('f')
        if not ftxt or not c_['kind'].startswith(('f', 'shared')):
            continue
        for mo in rx.finditer(ftxt):
            sh_ = mo.group(1) or a_.rsplit('!', 1)[0]
            if sh_.startswith("'"):
                sh_ = sh_[1:-1].replace("''", "'")
            ca, cb = sorted((R.col_to_num(mo.group(2)),
                             R.col_to_num(mo.group(4))))
            ra, rb = sorted((int(mo.group(3)), int(mo.group(5))))
            if (cb - ca + 1) * (rb - ra + 1) > 5000:
                continue
            for r_ in range(ra, rb + 1):
                for k_ in range(ca, cb + 1):
                    covered.add('%s!%s%d' % (sh_, R.num_to_col(k_), r_))
    extra = [a for a, c in model.cells.items() if a not in want and not (
        c.formula is None and c.value in (None, '') and a in covered)]
    if extra:
        bad = 'ignored-sheet' if any(
            a.rsplit('!', 1)[0] in ignore for a in extra) else 'unstored'
        res.fail('extra-cells:%s' % bad, 'only stored cells', sorted(extra)[
            :5])
        return res
    # 2. constants, formula texts, cached values
    ev0 = xl.Evaluator(model)
    for a, c in sorted(want.items()):
        cell = model.cells[a]
        k = c['kind']
        if k in ('f', 'shared-master', 'shared-member'):
            exp = '=' + (c.get('expect') or c['f'])
            got = cell.formula.formula if cell.formula is not None else None
            if got is None or squash(got) != squash(exp):
                res.fail('formula-text:%s' % k, exp, got, a)
                return res
            try:
                g = norm(ev0.get_cell_value(a))
            except Exception as err:  # noqa: BLE001
                g = exc_tag(err)
            if not close(g, cached_tag(c), rel=0):
                res.fail('cached-value:%s:%s' % (k, c.get('ctype') if c.get(
                    'cached') is not None else 'none'), cached_tag(c), g, a)
                return res
        elif k == 'e':
            if cell.formula is not None or str(cell.value) != c['v']:
                res.fail('constant:e', c['v'], repr(cell.value), a)
                return res
        else:
            if cell.formula is not None or not close(
                    norm(cell.value), const_tag(c), rel=0):
                res.fail('constant:%s' % k, const_tag(c), norm(cell.value),
                         a)
                return res
    # 3. defined names
    for n in wbnames:
        if n['sheet'] in ignore:
            continue
        dfn = model.defined_names.get(n['name'])
        qs = 'quoted-sheet' if needs_quote(n['sheet']) else 'plain-sheet'
        if 'a1' in n:
            addr = n['sheet'] + '!' + n['a1']
            if type(dfn).__name__ != 'XLCell' or dfn.address != addr:
                res.fail('name:cell:%s' % qs, addr, repr(dfn)[:120],
                         n['name'])
                return res
        else:
            r1, c1, r2, c2 = n['rect']
            exp = [['%s!%s%d' % (n['sheet'], R.num_to_col(c), r)
                    for c in range(c1, c2 + 1)] for r in range(r1, r2 + 1)]
            if type(dfn).__name__ != 'XLRange' or dfn.cells != exp:
                res.fail('name:range:%s' % qs, exp, repr(getattr(
                    dfn, 'cells', dfn))[:160], n['name'])
                return res
    # 3b. names work inside evaluation: evaluate(name) and get_cell_value
    ev_n = xl.Evaluator(model)
    for n in wbnames:
        if n['sheet'] in ignore or 'a1' not in n:
            continue
        c = want[n['sheet'] + '!' + n['a1']]
        if c['kind'] in ('n',):
            try:
                o = norm(ev_n.evaluate(n['name']))
            except Exception as err:  # noqa: BLE001
                o = root_exc(err)
            if not close(o, const_tag(c), rel=0):
                res.fail('name:evaluate', const_tag(c), o, n['name'])
                return res
    # 4. evaluation: loaded = dict-built = reference
    if ignore:
        return res
    d = {}
    presets = {}
    env_cells, env_forms = {}, {}
    for a, c in want.items():
        k = c['kind']
        if k in ('f', 'shared-master', 'shared-member'):
            d[a] = '=' + (c.get('expect') or c['f'])
        elif k == 'n' or (k in ('s', 'str', 'inlineStr') and c['v'] != ''
                          and not c['v'].startswith('=')):
            d[a] = c['v']
        elif k == 'e':
            d[a] = '=' + c['v']
        elif k == 'empty':
            continue
        else:
            d[a] = 0
            presets[a] = (c['v'] if k != 'date' else EPOCH[0] +
                          datetime.timedelta(days=c['v']))
    try:
        m2 = xl.ModelCompiler().read_and_parse_dict(
            d, default_sheet=sheets[0]['name'])
        ev2 = xl.Evaluator(m2)
        for a, v in presets.items():
            ev2.set_cell_value(a, v)
    except Exception as err:  # noqa: BLE001
        t = exc_tag(err)
        res.fail('dict-build-exception:%s:%s' % (t[1], t[2]), 'model', t)
        return res
    ev1 = xl.Evaluator(model)
    for a, c in sorted(want.items()):
        if c['kind'] not in ('f', 'shared-master', 'shared-member'):
            continue
        try:
            o1 = norm(ev1.evaluate(a))
        except Exception as err:  # noqa: BLE001
            o1 = root_exc(err)
        try:
            o2 = norm(ev2.evaluate(a))
        except Exception as err:  # noqa: BLE001
            o2 = root_exc(err)
        if not close(o1, o2, rel=1e-12):
            f = c.get('expect') or c['f']
            cls = ('quoted-sheet' if "'" in f else 'cross-sheet'
                   if '!' in f else 'own-sheet')
            res.fail('loaded-evaluates-differently:%s:%s' % (c['kind'], cls),
                     o2, o1, [a, f])
            return res
    return res
