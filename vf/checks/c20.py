"""C20 - financial functions satisfy their defining equations."""
import math

from vf.core.runner import Result
from vf.core import lib
from vf.gen.decode import decoded
from vf.ref.refeval import num_to_col

ID = 'C20'
LEVEL = 'exploration'
RULE = ('sampled (Hypothesis-decoded): rates in (-0.9, 10] incl. 0; cash '
        'flow vectors of length 1..30; IRR/XIRR flows CONSTRUCTED from a '
        'drawn root r* in (0,10] (non-negative returns, outlay '
        'c0 = -sum c_i/(1+r*)^t_i, so there is one sign change, a positive '
        'undiscounted sum and exactly one root, known in advance); strictly '
        'increasing date serials; (rate, nper 1..480 whole or fractional, pv, fv, type) and '
        '(cost, salvage, life>0); direct calls with native numbers and '
        'formulas with the flows in ranges.  Oracle: closed forms with '
        'math.fsum (1e-9 relative), IRR/XIRR against r* (1e-6 absolute) and '
        'by residual, linearity of NPV/XNPV, PV(r,n,PMT(r,n,pv))=pv, rate-0 '
        'reductions.  Non-trivial = rate != 0 and >= 3 flows, or a round '
        'trip; distinct by (function, arguments).')
ASSUMPTIONS = [
    'non-zero rates have |r| >= 1e-4 (the closed forms cancel '
    'catastrophically below, which is floating point, not the property) - '
    'except a PMT/PV family at |r| of 2e-7..1e-6 judged against exact '
    'rational arithmetic with relative tolerance 2e-7',
    '(1+r)^nper is kept below 1e250',
    'PMT with payments at period start, VDB, multiple-root flows and '
    'non-convergence on flows without a root are not generated',
]

RATES = [0.1, 0.05, 0.01, 0.5, 1.0, 2.5, 10.0, -0.5, -0.85, 0.0, 0.0001,
         -0.0001, 0.25, 0.075, 7.5]


def _rate(d):
    if d.pick(3) == 0:
        return d.int(-89, 1000) / 100.0
    return d.choice(RATES)


def _flows(d, n, signed=True):
    out = []
    for _ in range(n):
        v = d.int(0, 200000) / 100.0
        if d.pick(8) == 0:
            v = 0.0
        if signed and d.pick(4) == 0:
            v = -v
        out.append(v)
    return out


def _build(d):
    k = d.pick(9)
    mode = 'formula' if d.pick(3) == 0 else 'call'
    if k == 0:
        return {'k': 'NPV', 'r': _rate(d), 'flows': _flows(d, d.int(1, 30)),
                'mode': mode, 'parts': d.choice([1, 1, 2, 3]),
                'porient': d.choice(['c', 'c', 'r'])}
    if k == 1:
        n = d.int(1, 14)
        return {'k': 'LIN', 'r': _rate(d), 'c': _flows(d, n),
                'd': _flows(d, n), 'a': d.int(-5, 5), 'b': d.int(-5, 5),
                'dates': _dates(d, n), 'x': bool(d.pick(2))}
    if k in (2, 3) and d.pick(8) == 0:
        # TINY non-zero rates: judged against exact rational arithmetic
        # with a tolerance that covers the cancellation in (1+r)^n - 1
        return {'k': 'PMTPV-tiny',
                'r': d.choice([1e-6, 8e-7, -5e-7, 2e-7, -1e-6, 3e-7]),
                'n': d.choice([12, 60, 120, 360, 1200, 3650]),
                'pv': d.int(-1000000, 1000000) / 10.0,
                'fv': 0 if d.pick(2) else d.int(-100000, 100000) / 10.0,
                'type': d.pick(2), 'mode': 'call'}
    if k in (2, 3):
        r = _rate(d)
        nper = d.int(1, 480)
        if r > 0:
            nper = min(nper, int(250 / math.log10(1 + r)))
        elif r < 0:
            nper = min(nper, int(250 / -math.log10(1 + r)))
        nper = max(1, nper)
        if d.pick(4) == 0:
            # fractional and float-typed numbers of periods (the closed
            # forms hold for any nper > 0)
            nper = nper + d.choice([0.5, 0.25, 0.75, 0.0, 0.01])
        return {'k': 'PMTPV', 'r': r, 'n': nper,
                'pv': d.int(-1000000, 1000000) / 10.0,
                'fv': 0 if d.pick(2) else d.int(-100000, 100000) / 10.0,
                'type': d.pick(2), 'mode': mode}
    if k == 4:
        return {'k': 'SLN', 'cost': d.int(0, 1000000) / 10.0,
                'salvage': d.int(0, 100000) / 10.0,
                'life': d.choice([1, 2, 5, 10, 7.5, 0.5, 40]), 'mode': mode}
    if k == 5:
        n = d.int(1, 30)
        return {'k': 'XNPV', 'r': _rate(d), 'flows': _flows(d, n),
                'dates': _dates(d, n), 'mode': mode,
                'dk': d.choice(['serial', 'serial', 'isotext', 'datef']),
                'orient': d.choice(['cc', 'cc', 'rr', 'rc', 'cr'])}
    n = d.int(1, 12)
    root = d.choice([0.05, 0.1, 0.2, 0.5, 1.0, 0.01, 2.0, 5.0, 10.0]) \
        if d.pick(2) else d.int(1, 1000) / 100.0
    rets = _flows(d, n, signed=False)
    if not any(rets):
        rets[-1] = 100.0
    if k in (6, 7):
        return {'k': 'IRR', 'root': root, 'returns': rets, 'mode': mode,
                'orient': d.choice(['c', 'c', 'r', 'b'])}
    return {'k': 'XIRR', 'root': root, 'returns': rets,
            'dates': _dates(d, n + 1), 'mode': mode,
            'dk': d.choice(['serial', 'serial', 'isotext', 'datef']),
            'orient': d.choice(['cc', 'cc', 'rr', 'rc', 'cr']),
            # the optional third argument: an explicit first guess
            'guess': d.choice([None, None, None, 0.05, 0.5, 1, 5, -0.5, 50])}


def _dates(d, n):
    t = d.int(36526, 47000)
    out = [t]
    for _ in range(n - 1):
        t += d.int(1, 400)
        out.append(t)
    return out


def strategy(tier):
    return decoded(_build, min_size=40, max_size=200)


def budget(tier):
    return 30000 if tier == 'quick' else 2000000


def enumerate_cases(tier, shard=0, nshards=1):
    i = 0
    for r in RATES:
        for n in (1, 2, 3, 10, 30):
            i += 1
            if i % nshards != shard:
                continue
            flows = [100.0 * (j + 1) * (-1 if j % 3 == 0 else 1)
                     for j in range(n)]
            yield {'k': 'NPV', 'r': r, 'flows': flows, 'mode': 'call'}
            yield {'k': 'NPV', 'r': r, 'flows': flows, 'mode': 'formula'}
            yield {'k': 'XNPV', 'r': r, 'flows': flows,
                   'dates': [40000 + 91 * j for j in range(n)],
                   'mode': 'formula'}
            for ty in (0, 1):
                yield {'k': 'PMTPV', 'r': r, 'n': n, 'pv': 1000.0,
                       'fv': 0, 'type': ty, 'mode': 'call'}
                yield {'k': 'PMTPV', 'r': r, 'n': n, 'pv': -2500.5,
                       'fv': 300.0, 'type': ty, 'mode': 'call'}


# ------------------------------------------------------------------ oracle

def npv(r, flows):
    return math.fsum(c / (1 + r) ** (i + 1) for i, c in enumerate(flows))


def xnpv(r, flows, dates):
    return math.fsum(c / (1 + r) ** ((t - dates[0]) / 365.0)
                     for c, t in zip(flows, dates))


def pmt(r, n, pv, fv):
    if r == 0:
        return -(pv + fv) / n
    g = (1 + r) ** n
    return -(pv * g + fv) * r / (g - 1)


def pv_(r, n, p, fv, ty):
    if r == 0:
        return -(fv + p * n)
    g = (1 + r) ** n
    return -(fv + p * (1 + r * ty) * (g - 1) / r) / g


def relclose(o, want, rel=1e-9, scale=None):
    if o[0] != 'N' or not isinstance(o[1], float):
        return False
    s = scale if scale is not None else abs(want)
    return abs(o[1] - want) <= rel * max(s, 1e-12)


def _col_cells(values, col=0, sheet='Sheet1'):
    return {'%s!%s%d' % (sheet, num_to_col(col + 1), i + 1): v
            for i, v in enumerate(values)}


def _rng(col, n):
    c = num_to_col(col + 1)
    return '%s1:%s%d' % (c, c, n)


def _place(values, orient, slot):
    """cells + range text + call argument for a vector laid out as a
    column ('c') or a row ('r'); slot 0/1 keeps two vectors apart."""
    if orient == 'b':
        # a rectangular BLOCK read in row-major order (when the length has
        # a divisor 2..4, else a column)
        n = len(values)
        w = next((k for k in (3, 2, 4) if n % k == 0 and n > k), None)
        if w is None:
            orient = 'c'
        else:
            row0, col0 = 60 + 20 * slot, 1
            cells = {'Sheet1!%s%d' % (num_to_col(col0 + i % w),
                                      row0 + i // w): v
                     for i, v in enumerate(values)}
            rng = '%s%d:%s%d' % (num_to_col(col0), row0,
                                 num_to_col(col0 + w - 1),
                                 row0 + n // w - 1)
            return cells, rng, [list(values[i:i + w])
                                for i in range(0, n, w)]
    if orient == 'c':
        cells = _col_cells(values, col=slot)
        return cells, _rng(slot, len(values)), [[v] for v in values]
    row = 40 + slot
    cells = {'Sheet1!%s%d' % (num_to_col(i + 1), row): v
             for i, v in enumerate(values)}
    return (cells, 'A%d:%s%d' % (row, num_to_col(len(values)), row),
            [list(values)])


def _spell_dates(dates, kind):
    """the same dates as serial numbers, as ISO 8601 text or as =DATE()
    formulas (cells only)"""
    import datetime
    if kind in (None, 'serial'):
        return list(dates)
    ds = [datetime.date(1899, 12, 30) + datetime.timedelta(days=t)
          for t in dates]
    if kind == 'isotext':
        return [x.isoformat() for x in ds]
    return ['=DATE(%d,%d,%d)' % (x.year, x.month, x.day) for x in ds]


def _fail(res, bucket, want, o, note):
    if o[0] == 'X':
        bucket = 'exception:%s:%s' % (bucket.split(':')[0], o[1])
    res.fail(bucket, want, o, note)


def judge(case):
    res = Result()
    k = case['k']
    res.labels = (k, case.get('mode', 'call'))
    if k == 'NPV':
        r, flows = case['r'], case['flows']
        want = npv(r, flows)
        scale = math.fsum(abs(c) / (1 + r) ** (i + 1)
                          for i, c in enumerate(flows))
        if case['mode'] == 'call':
            o = lib.call_fn('NPV', r, *flows)
            note = ['NPV', r] + flows
        else:
            parts = case.get('parts') or 1
            n = len(flows)
            if parts > 1 and n >= 2 * parts:
                # the flows handed over as SEVERAL range arguments (equal
                # heights where it divides, a scalar in between sometimes):
                # the arguments are read one after the other
                size = n // parts
                cells, txts = {}, []
                for j in range(parts):
                    chunk = flows[j * size:(j + 1) * size if j < parts - 1
                                  else n]
                    c_, t_, _ = _place(chunk, case.get('porient', 'c'), j)
                    cells.update(c_)
                    txts.append(t_)
                rtxt = ','.join(txts)
                res.labels += ('ranges:%d' % parts,)
            else:
                cells, rtxt, _ = _place(flows, 'r' if n % 2 else 'c', 0)
            note = '=NPV(%r,%s)' % (r, rtxt)
            o = lib.eval_formula(note, cells, addr='Sheet1!Z99')[0]
        res.nontrivial = r != 0 and len(flows) >= 3
        if not relclose(o, want, scale=scale):
            _fail(res, 'NPV:%s' % ('rate0' if r == 0 else 'value'), want, o,
                  note)
        return res
    if k == 'XNPV':
        r, flows, dates = case['r'], case['flows'], case['dates']
        want = xnpv(r, flows, dates)
        scale = math.fsum(abs(c) / (1 + r) ** ((t - dates[0]) / 365.0)
                          for c, t in zip(flows, dates))
        orient = case.get('orient', 'cc')
        c1, r1, a1 = _place(flows, orient[0], 0)
        dk = case.get('dk')
        if dk == 'datef' and case['mode'] == 'call':
            dk = 'isotext'      # a formula cannot be passed to a direct call
        c2, r2, a2 = _place(_spell_dates(dates, dk), orient[1], 1)
        cells = dict(c1)
        cells.update(c2)
        note = '=XNPV(%r,%s,%s)' % (r, r1, r2)
        if case['mode'] == 'call':
            o = lib.call_fn('XNPV', r, a1, a2)
        else:
            o = lib.eval_formula(note, cells, addr='Sheet1!Z99')[0]
        res.labels += ('orient:' + orient,)
        res.nontrivial = r != 0 and len(flows) >= 3
        if not relclose(o, want, scale=scale):
            _fail(res, 'XNPV:value:%s' % ('same-orientation' if orient[0]
                                          == orient[1] else
                                          'mixed-orientation'), want, o, note)
        return res
    if k == 'LIN':
        return _linear(case, res)
    if k == 'PMTPV':
        return _pmtpv(case, res)
    if k == 'PMTPV-tiny':
        return _pmtpv_tiny(case, res)
    if k == 'SLN':
        want = (case['cost'] - case['salvage']) / case['life']
        if case['mode'] == 'call':
            o = lib.call_fn('SLN', case['cost'], case['salvage'],
                            case['life'])
            note = None
        else:
            note = '=SLN(%r,%r,%r)' % (case['cost'], case['salvage'],
                                       case['life'])
            o = lib.eval_formula(note)[0]
        res.nontrivial = True
        if not relclose(o, want, scale=abs(want) + 1e-9):
            _fail(res, 'SLN:value', want, o, note)
        return res
    return _irr(case, res)


def _linear(case, res):
    r, c, d_, a, b = case['r'], case['c'], case['d'], case['a'], case['b']
    comb = [a * x + b * y for x, y in zip(c, d_)]
    res.nontrivial = True
    if case['x']:
        dates = case['dates']

        def f(fl):
            return lib.call_fn('XNPV', r, [[v] for v in fl],
                               [[t] for t in dates])
        name = 'XNPV'
        scale = math.fsum((abs(a * x) + abs(b * y))
                          / (1 + r) ** ((t - dates[0]) / 365.0)
                          for x, y, t in zip(c, d_, dates))
    else:
        def f(fl):
            return lib.call_fn('NPV', r, *fl)
        name = 'NPV'
        scale = math.fsum((abs(a * x) + abs(b * y)) / (1 + r) ** (i + 1)
                          for i, (x, y) in enumerate(zip(c, d_)))
    oc, od, ocomb = f(c), f(d_), f(comb)
    if not all(t[0] == 'N' and isinstance(t[1], float)
               for t in (oc, od, ocomb)):
        res.fail('linearity:%s:nonnumeric' % name, 'numbers', [oc, od, ocomb])
        return res
    want = a * oc[1] + b * od[1]
    if abs(ocomb[1] - want) > 1e-9 * max(scale, 1e-9):
        res.fail('linearity:%s' % name, want, ocomb)
    return res


def _pmtpv(case, res):
    r, n, pv, fv, ty = (case['r'], case['n'], case['pv'], case['fv'],
                        case['type'])
    res.nontrivial = True
    g = (1 + r) ** n
    # PMT (payments at period end) against the closed form
    want = pmt(r, n, pv, fv)
    if case['mode'] == 'call':
        o = lib.call_fn('PMT', r, n, pv, fv)
        note = ['PMT', r, n, pv, fv]
    else:
        note = '=PMT(%r,%r,%r,%r)' % (r, n, pv, fv)
        o = lib.eval_formula(note)[0]
    scale = (abs(pv) * g + abs(fv)) * (abs(r) / abs(g - 1) if r else 1.0 / n)
    if not relclose(o, want, scale=scale):
        _fail(res, 'PMT:%s' % ('rate0' if r == 0 else 'value'), want, o, note)
        return res
    # PV (either timing) against the closed form
    p = want
    wantpv = pv_(r, n, p, fv, ty)
    o2 = lib.call_fn('PV', r, n, p, fv, ty)
    scale2 = abs(fv) / g + abs(p) * (1 + abs(r)) * (
        abs(g - 1) / abs(r) / g if r else n)
    if not relclose(o2, wantpv, scale=scale2):
        _fail(res, 'PV:%s:type%d' % ('rate0' if r == 0 else 'value', ty),
              wantpv, o2, ['PV', r, n, p, fv, ty])
        return res
    # round trip PV(r, n, PMT(r, n, pv)) = pv  (fv = 0, type 0)
    o3 = lib.call_fn('PMT', r, n, pv)
    if o3[0] == 'N' and isinstance(o3[1], float):
        o4 = lib.call_fn('PV', r, n, o3[1])
        if not relclose(o4, pv, rel=1e-8, scale=abs(pv) + 1e-6):
            _fail(res, 'roundtrip:PV(PMT)', pv, o4, [r, n, pv])
    else:
        _fail(res, 'PMT:nonnumeric', 'number', o3, [r, n, pv])
    return res


def _pmtpv_tiny(case, res):
    from fractions import Fraction as Fr
    r, n, pv, fv, ty = (case['r'], case['n'], case['pv'], case['fv'],
                        case['type'])
    res.nontrivial = True
    res.labels = ('PMTPV', 'tiny-rate')
    R_, PV_, FV_ = Fr(r), Fr(pv), Fr(fv)
    g = (1 + R_) ** n
    want = float(-(PV_ * g + FV_) * R_ / (g - 1))
    o = lib.call_fn('PMT', r, n, pv, fv)
    scale = (abs(pv) + abs(fv)) / n + abs(pv) * abs(r)
    # the zero-rate formula is off by about r * n / 2 relatively (>= 1e-6 *
    # scale for every drawn pair); float cancellation stays below 1e-9
    if not relclose(o, want, rel=2e-7, scale=scale):
        _fail(res, 'PMT:tiny-rate', want, o, ['PMT', r, n, pv, fv])
        return res
    p = want
    wantpv = float(-(FV_ + Fr(p) * (1 + R_ * ty) * (g - 1) / R_) / g)
    o2 = lib.call_fn('PV', r, n, p, fv, ty)
    if not relclose(o2, wantpv, rel=2e-7, scale=abs(fv) + abs(p) * n):
        _fail(res, 'PV:tiny-rate:type%d' % ty, wantpv, o2,
              ['PV', r, n, p, fv, ty])
    return res


def _irr(case, res):
    k, root, rets = case['k'], case['root'], case['returns']
    res.nontrivial = len(rets) >= 2
    if k == 'IRR':
        c0 = -math.fsum(c / (1 + root) ** (i + 1) for i, c in enumerate(rets))
        flows = [c0] + rets
        cells, rtxt, arg = _place(flows, case.get('orient', 'c'), 0)
        note = '=IRR(%s)' % rtxt
        if case['mode'] == 'call':
            o = lib.call_fn('IRR', arg)
        else:
            o = lib.eval_formula(note, cells, addr='Sheet1!Z99')[0]

        def resid(x):
            return math.fsum(c / (1 + x) ** i for i, c in enumerate(flows))
    else:
        dates = case['dates']
        t0 = dates[0]
        c0 = -math.fsum(c / (1 + root) ** ((t - t0) / 365.0)
                        for c, t in zip(rets, dates[1:]))
        flows = [c0] + rets
        orient = case.get('orient', 'cc')
        c1, r1, a1 = _place(flows, orient[0], 0)
        dk = case.get('dk')
        if dk == 'datef' and case['mode'] == 'call':
            dk = 'isotext'      # a formula cannot be passed to a direct call
        c2, r2, a2 = _place(_spell_dates(dates, dk), orient[1], 1)
        cells = dict(c1)
        cells.update(c2)
        guess = case.get('guess')
        note = '=XIRR(%s,%s%s)' % (r1, r2, '' if guess is None
                                    else ',%r' % guess)
        if case['mode'] == 'call':
            o = (lib.call_fn('XIRR', a1, a2) if guess is None
                 else lib.call_fn('XIRR', a1, a2, guess))
        else:
            o = lib.eval_formula(note, cells, addr='Sheet1!Z99')[0]
        if guess is not None:
            res.labels += ('explicit-guess',)
            if o == ('E', '#NUM!'):
                # from a far-off guess the iteration may fail to converge:
                # #NUM! is a legitimate answer, a number that is no root not
                res.labels += ('explicit-guess:no-convergence',)
                return res

        def resid(x):
            return math.fsum(c / (1 + x) ** ((t - t0) / 365.0)
                             for c, t in zip(flows, dates))
    if abs(c0) < 1e-6:
        res.nontrivial = False
        res.labels += ('negligible-outlay:not-asserted',)
        return res
    size = 'root<=1' if root <= 1 else 'root>1'
    if k == 'XIRR' and any(c == 0 for c in flows):
        size = 'zero-flow'
    if o[0] != 'N' or not isinstance(o[1], float):
        _fail(res, '%s:no-root-returned:%s' % (k, size), root, o, note)
        return res
    if abs(o[1] - root) > 1e-6:
        # accept an equally good root by residual (flat objective)
        tot = math.fsum(abs(c) for c in flows)
        try:
            rs = abs(resid(o[1])) if o[1] > -1 else float('inf')
        except (ZeroDivisionError, OverflowError, ValueError):
            rs = float('inf')
        if rs > 1e-6 * tot or abs(o[1] - root) > 1e-4:
            _fail(res, '%s:wrong-root:%s' % (k, size), root, o, note)
    return res
