"""C04 - evaluation always reflects the current inputs (no stale results)."""
import importlib
import itertools

from vf.core.runner import Result
from vf.core import lib
from vf.core.norm import norm, root_exc, exc_tag, close
from vf.gen import models as GM
from vf.gen.decode import decoded, D
from vf.ref import refeval as R

ID = 'C04'
LEVEL = 'exploration'
RULE = ('A fixed model whose ranges have HOLES (addresses that are no cells until a set creates them).  '
        'enumerated: four fixed small models (chain of 3, diamond, range '
        'whose members are formulas, two-sheet chain) x EVERY history of '
        'length <= 4 (thorough 5) over the alphabet {set(i, v) for each '
        'input i and two values v, eval(c) for each cell c, get(c), '
        'new-evaluator}; sampled (Hypothesis-decoded): random acyclic models '
        '(<= 8 inputs, <= 11 formulas over + - *, SUM/MAX/MIN over ranges, '
        'IF, optionally a second sheet) with histories of up to 30 (thorough '
        '60) steps.  Oracle after every eval(c): a freshly compiled model '
        'holding the current inputs AND the independent reference evaluator; '
        'get after eval returns the computed value, get after set the value '
        'set.  Non-trivial = the history contains eval(c) ... set(i, v\') ... '
        'eval(c) with c transitively dependent on i and v\' different from '
        "i's previous value; distinct by (model, history).")
ASSUMPTIONS = [
    'inputs of the sampled models are numbers (two fixed models set '
    'booleans, texts, blanks and floats of equal value); models are '
    'acyclic by construction; sampled dependency depth <= 5',
    'histories that set an input through a defined name are exercised by '
    'C11/C03 models (names only exist on the workbook path)',
]

FIXED = [
    {'inputs': {'Sheet1!A1': 1},
     'formulas': {'Sheet1!B1': ['op', '+', ['ref', 'A1'], ['num', '1']],
                  'Sheet1!C1': ['op', '*', ['ref', 'B1'], ['num', '2']]},
     'sheets': ['Sheet1']},
    {'inputs': {'Sheet1!A1': 3},
     'formulas': {'Sheet1!B1': ['op', '+', ['ref', 'A1'], ['num', '1']],
                  'Sheet1!C1': ['op', '*', ['ref', 'A1'], ['num', '2']],
                  'Sheet1!D1': ['op', '+', ['ref', 'B1'], ['ref', 'C1']]},
     'sheets': ['Sheet1']},
    {'inputs': {'Sheet1!A1': 1, 'Sheet1!A2': 2},
     'formulas': {'Sheet1!B1': ['op', '+', ['ref', 'A1'], ['num', '1']],
                  'Sheet1!B2': ['op', '+', ['ref', 'A2'], ['num', '1']],
                  'Sheet1!C1': ['call', 'SUM', [['range', 'B1:B2']]]},
     'sheets': ['Sheet1']},
    {'inputs': {'Sheet1!A1': 5},
     'formulas': {'Sheet2!A1': ['op', '+', ['ref', 'Sheet1!A1'],
                                ['num', '1']],
                  'Sheet1!B1': ['op', '*', ['ref', 'Sheet2!A1'],
                                ['num', '3']]},
     'sheets': ['Sheet1', 'Sheet2']},
]
FIXED.append(
    # type-sensitive dependants: a set to an EQUAL value of another type
    # (1 -> TRUE, 1 -> 1.0, 0 -> FALSE) must not be dropped
    {'inputs': {'Sheet1!A1': 1},
     'formulas': {'Sheet1!B1': ['op', '&', ['ref', 'A1'], ['str', 'x']],
                  'Sheet1!C1': ['call', 'ISNUMBER', [['ref', 'A1']]],
                  'Sheet1!D1': ['call', 'IF', [
                      ['op', '=', ['ref', 'A1'], ['num', '1']],
                      ['str', 'one'], ['ref', 'B1']]]},
     'sheets': ['Sheet1'], 'setvals': [True, 1.0, 0, False, 1]})
FIXED.append(
    # defined names (workbook path): setting / evaluating / reading through
    # a name is equivalent to using the address
    {'inputs': {'Sheet1!A1': 2, 'Sheet1!A2': 5},
     'formulas': {'Sheet1!B1': ['op', '*', ['ref', 'A1'], ['num', '3']],
                  'Sheet1!C1': ['op', '+', ['call', 'SUM', [
                      ['range', 'A1:A2']]], ['ref', 'B1']]},
     'sheets': ['Sheet1'],
     'names': {'Rate': 'Sheet1!A1', 'Total': 'Sheet1!C1'}})
FIXED.append(
    # twin sheets: character-identical formula texts whose unqualified
    # references mean different cells; inputs of either sheet change
    {'inputs': {'Sheet1!A1': 1, 'Sheet1!A2': 2, 'Sheet2!A1': 10,
                'Sheet2!A2': 20},
     'formulas': {'Sheet1!A3': ['call', 'SUM', [['range', 'A1:A2']]],
                  'Sheet2!A3': ['call', 'SUM', [['range', 'A1:A2']]],
                  'Sheet1!B1': ['op', '*', ['ref', 'A1'], ['num', '2']],
                  'Sheet2!B1': ['op', '*', ['ref', 'A1'], ['num', '2']]},
     'sheets': ['Sheet1', 'Sheet2'], 'setvals': [50]})
FIXED.append(
    # a range of inputs of several KINDS under consumers that can tell
    # Excel-equal values apart ('xyz' = 'XYZ', 0 = blank, 5 = 5.0 under
    # Excel's "=", but CONCAT / COUNT / COUNTA see the difference)
    {'inputs': {'Sheet1!A1': 'xyz', 'Sheet1!A2': 0, 'Sheet1!A3': 5},
     'formulas': {'Sheet1!B1': ['call', 'CONCAT', [['range', 'A1:A3']]],
                  'Sheet1!B2': ['call', 'COUNT', [['range', 'A1:A3']]],
                  'Sheet1!B3': ['call', 'COUNTA', [['range', 'A1:A3']]],
                  'Sheet1!B4': ['op', '&', ['ref', 'B1'], ['str', '!']]},
     'sheets': ['Sheet1'], 'setvals': ['XYZ', None, 5.5], 'maxlen': 3})
FIXED.append(
    # an evaluation that FAILS half way (unknown function after a range has
    # been read) in the middle of a history: what it leaves behind must not
    # reach later evaluations
    {'inputs': {'Sheet1!A1': 1, 'Sheet1!A2': 2},
     'formulas': {'Sheet1!B1': ['call', 'SUM', [['range', 'A1:A2']]],
                  'Sheet1!B2': ['op', '+', ['call', 'SUM', [
                      ['range', 'A1:A2']]], ['call', 'NOSUCHFN', [
                          ['ref', 'A1']]]],
                  'Sheet1!B3': ['op', '+', ['call', 'MAX', [
                      ['range', 'A1:A2']]], ['ref', 'B1']]},
     'sheets': ['Sheet1'], 'setvals': [50, 0.5]})
FIXED.append(
    # a formula over an address the model does not hold (B1 is no cell at
    # all until the first set_cell_value creates it)
    {'inputs': {'Sheet1!A1': 2, 'Sheet1!B1': None},
     'formulas': {'Sheet1!C1': ['op', '+', ['ref', 'A1'], ['ref', 'B1']],
                  'Sheet1!D1': ['op', '*', ['ref', 'C1'], ['num', '10']],
                  'Sheet1!E1': ['call', 'SUM', [['ref', 'B1'],
                                                ['range', 'A1:A2']]]},
     'sheets': ['Sheet1'], 'setvals': [5, 0.5]})
FIXED.append(
    # a range with HOLES: A2 and B1 are no cells at all when the range is
    # first evaluated; filling one later must reach every consumer of the
    # rectangle (and of the single cell)
    {'inputs': {'Sheet1!A1': 2, 'Sheet1!A2': None, 'Sheet1!B1': None,
                'Sheet1!B2': 4},
     'formulas': {'Sheet1!C1': ['call', 'SUM', [['range', 'A1:B2']]],
                  'Sheet1!C2': ['call', 'COUNT', [['range', 'A1:A2']]],
                  'Sheet1!C3': ['op', '+', ['ref', 'A2'], ['ref', 'C1']]},
     'sheets': ['Sheet1'], 'setvals': [5, 0.5]})
for _m in FIXED:
    _m['order'] = list(_m['formulas'])
PLACEHOLDER = 987654321


def compile_named(model):
    """workbook path: the only one that creates defined names"""
    import os
    import tempfile
    from vf.gen import xlsxmin
    xl = lib.lib()
    per = {s_: {} for s_ in model['sheets']}
    for a, v in model['inputs'].items():
        s_, a1 = a.split('!')
        per[s_][a1] = {'kind': 'n', 'v': v}
    for a, t in model['formulas'].items():
        s_, a1 = a.split('!')
        per[s_][a1] = {'kind': 'f', 'f': R.render(t)}
    wbn = []
    for n, a in model['names'].items():
        s_, a1 = a.split('!')
        c, r = R.split_a1(a1)
        wbn.append({'name': n, 'ref': '%s!$%s$%d' % (s_, c, r)})
    fd, fn = tempfile.mkstemp(prefix='vf_c04_', suffix='.xlsx')
    os.close(fd)
    try:
        xlsxmin.write(fn, {'sheets': [{'name': s_, 'cells': per[s_]}
                                      for s_ in model['sheets']],
                           'names': wbn})
        return xl.ModelCompiler().read_and_parse_archive(fn)
    finally:
        os.remove(fn)


def vtag(v):
    if v is None:
        return ('Z',)
    if isinstance(v, bool):
        return ('B', v)
    if isinstance(v, str):
        return ('T', v)
    return ('N', float(v))


def compile_with(model, inputs):
    """compiled library model holding these inputs (values the dict format
    cannot carry - booleans - are applied with set_cell_value on top of a
    placeholder that equals no generated value)."""
    xl = lib.lib()
    d = GM.to_dict(model, inputs)
    presets = {}
    for a, v in inputs.items():
        if isinstance(v, bool):
            d[a] = PLACEHOLDER
            presets[a] = v
        elif v is None:
            del d[a]        # a blank input is an empty cell
    m = lib.compile_dict(d)
    ev = xl.Evaluator(m)
    for a, v in presets.items():
        ev.set_cell_value(a, v)
    return m, ev


def _alphabet(m):
    ops = []
    for i in sorted(m['inputs']):
        for v in m.get('setvals', (7, 11.5)):
            ops.append(['set', i, v])
        # the address handed over as an XLCell OBJECT (the other form
        # set_cell_value accepts)
        ops.append(['setx', i, m.get('setvals', (7, 11.5))[-1]])
    for c in sorted(m['formulas']):
        ops.append(['eval', c])
    for n, a in sorted(m.get('names', {}).items()):
        if a in m['inputs']:
            ops.append(['set', n, 13])
            ops.append(['get', n])
        ops.append(['eval', n])
    last = sorted(m['formulas'])[-1]
    ops.append(['get', last])
    ops.append(['eval', sorted(m['inputs'])[0]])
    ops.append(['newev'])
    # two evaluators that stay alive side by side on the one model
    ops.append(['other'])
    return ops


def _chain_model(n):
    m = {'inputs': {'Sheet1!A1': 1}, 'formulas': {}, 'sheets': ['Sheet1']}
    for k in range(2, n + 1):
        m['formulas']['Sheet1!A%d' % k] = ['op', '+', ['ref', 'A%d' % (k - 1)],
                                           ['num', '1']]
    m['order'] = list(m['formulas'])
    return m


def enumerate_cases(tier, shard=0, nshards=1):
    maxlen = 4 if tier == 'quick' else 5
    i = 0
    # long dependency chains (66, 130, 200 formulas): staleness that only
    # starts beyond some depth
    for n in (66, 130, 200):
        top, mid = 'Sheet1!A%d' % n, 'Sheet1!A%d' % (n // 2)
        for hist in ([['eval', top], ['set', 'Sheet1!A1', 1000],
                      ['eval', top], ['get', top]],
                     [['eval', mid], ['eval', top], ['set', 'Sheet1!A1', 7],
                      ['eval', top], ['eval', mid]],
                     [['eval', top], ['newev'], ['set', 'Sheet1!A1', 3],
                      ['eval', top]]):
            i += 1
            if i % nshards == shard:
                yield {'model': _chain_model(n), 'history': hist}
    for mi, m in enumerate(FIXED):
        alpha = _alphabet(m)
        # (the workbook path costs ~10 ms per history: one step shorter)
        for n in range(1, min(maxlen, m.get('maxlen', 9)) +
                       (0 if 'names' not in m else -1) + 1):
            for hist in itertools.product(range(len(alpha)), repeat=n):
                # a history without eval observes nothing
                if not any(alpha[h][0] == 'eval' for h in hist):
                    continue
                i += 1
                if i % nshards != shard:
                    continue
                yield {'fixed': mi, 'history': [alpha[h] for h in hist]}


def _build(d, maxsteps):
    model = GM.build_model(d)
    cells = sorted(model['inputs']) + model['order']
    inputs = sorted(model['inputs'])
    hist = []
    n = d.int(3, maxsteps)
    focus = d.pick(2) == 0 and model['order']
    for _ in range(n):
        if focus and len(hist) < maxsteps:
            # the shape in which staleness is observable: eval(c), change an
            # input c depends on, eval(c) again (possibly via another cell)
            c = d.choice(model['order'])
            clo = sorted(x for x in GM.closure(model, [c])
                         if x in model['inputs'])
            hist.append(['eval', c])
            sw = d.pick(3) == 0
            if clo:
                if sw:
                    # the set goes through ANOTHER evaluator of the model
                    hist.append(['other'])
                hist.append([d.choice(['set', 'set', 'setx']), d.choice(clo),
                             d.choice([0, 1, -3, 2.5, 10, 100, 7, 42, 1.0, 0.0,
                                   7.0])])
            if sw and clo and d.pick(3):
                hist.append(['other'])
            if d.pick(3) == 0:
                hist.append(['eval', d.choice(model['order'])])
            hist.append(['eval', c])
            continue
        k = d.pick(10)
        if k < 4 and model['order']:
            hist.append(['eval', d.choice(model['order'])])
        elif k < 7:
            hist.append([d.choice(['set', 'set', 'set', 'setx']),
                         d.choice(inputs),
                         d.choice([0, 1, -3, 2.5, 10, 100, 7, 42])])
        elif k < 8:
            hist.append(['get', d.choice(cells)])
        elif k < 9:
            hist.append(['eval', d.choice(cells)])
        else:
            hist.append(d.choice([['newev'], ['other'], ['other']]))
    if model['order']:
        hist.append(['eval', model['order'][-1]])
    return {'model': model, 'history': hist}


def strategy(tier):
    steps = 30 if tier == 'quick' else 60
    return decoded(lambda d: _build(d, steps), min_size=48,
                   max_size=320 if tier == 'quick' else 500)


def budget(tier):
    return 4000 if tier == 'quick' else 200000


_fresh_cache = {}


def _fresh(model, inputs, addr, key):
    """library value of addr in a freshly compiled model with these inputs"""
    k = (key, tuple(sorted((a, repr(v)) for a, v in inputs.items())), addr)
    if key is not None and k in _fresh_cache:
        return _fresh_cache[k]
    try:
        m, ev = compile_with(model, inputs)
        v = lib.evaluate(m, addr, ev)
    except Exception as err:  # noqa: BLE001
        v = exc_tag(err)
    if key is not None:
        if len(_fresh_cache) > 20000:
            _fresh_cache.clear()
        _fresh_cache[k] = v
    return v


def judge(case):
    res = Result()
    xl = lib.lib()
    if 'fixed' in case:
        model = FIXED[case['fixed']]
        key = case['fixed']
    else:
        model = case['model']
        key = None
    hist = case['history']
    inputs = dict(model['inputs'])
    names = model.get('names', {})
    try:
        m = compile_named(model) if names else lib.compile_dict(
            {a: v for a, v in GM.to_dict(model).items() if v is not None})
        ev = xl.Evaluator(m)
    except Exception as err:  # noqa: BLE001
        t = exc_tag(err)
        res.fail('compile-exception:%s:%s' % (t[1], t[2]), 'model', t)
        return res
    dp = GM.deps(model)
    evaluated_with = {}     # cell -> inputs snapshot at last eval
    nontrivial = False
    last_known = {}         # addr -> last value set or computed (tag)
    alt = {}                # addr -> values it may have been recomputed to
    other = [None]
    for step, op in enumerate(hist):
        kind = op[0]
        if kind == 'newev':
            ev = xl.Evaluator(m)
            continue
        if kind == 'other':
            # switch to the second of two evaluators sharing the model (the
            # first stays alive and is switched back to by the next 'other')
            if other[0] is None:
                other[0] = xl.Evaluator(m)
            ev, other[0] = other[0], ev
            continue
        via = ':by-name' if op[1] in names else ''
        if kind in ('set', 'setx'):
            _, target, v = op
            a = names.get(target, target)
            try:
                if kind == 'setx':
                    xlt = importlib.import_module('xlcalculator.xltypes')
                    ev.set_cell_value(m.cells[a] if a in m.cells and
                                      step % 2 else xlt.XLCell(a), v)
                else:
                    ev.set_cell_value(target, v)
            except Exception as err:  # noqa: BLE001
                res.fail('set-exception', 'ok', exc_tag(err), op)
                return res
            inputs[a] = v
            last_known[a] = vtag(v)
            try:
                g = norm(ev.get_cell_value(target))
                g2 = norm(ev.get_cell_value(a))
            except Exception as err:  # noqa: BLE001
                g = g2 = exc_tag(err)
            if g != vtag(v) or g2 != vtag(v):
                res.fail('get-after-set' + via, vtag(v), [g, g2], [step, op])
                return res
            continue
        if kind == 'get':
            target = op[1]
            a = names.get(target, target)
            if a in last_known:
                try:
                    g = norm(ev.get_cell_value(target))
                except Exception as err:  # noqa: BLE001
                    g = exc_tag(err)
                if not close(g, last_known[a], rel=1e-12) and not any(
                        close(g, t, rel=1e-12) for t in alt.get(a, [])):
                    res.fail('get-returns-other-than-last-value',
                             last_known[a], g, [step, op])
                    return res
            continue
        # eval
        target = op[1]
        a = names.get(target, target)
        try:
            obs = norm(ev.evaluate(target))
        except Exception as err:  # noqa: BLE001
            obs = root_exc(err)
        if a in model['formulas']:
            want = R.tag(GM.ref_values(model, inputs, [a])[a])
            fresh = _fresh(model, inputs, a, key)
            prev = evaluated_with.get(a)
            changed = prev is not None and any(
                prev.get(i) != inputs.get(i)
                for i in GM.closure(model, [a]) if i in inputs)
            if changed:
                nontrivial = True
            evaluated_with[a] = dict(inputs)
            if want is not None and not close(fresh, want, rel=1e-12):
                res.fail('fresh-model-disagrees-with-reference', want, fresh,
                         [step, op, GM.to_dict(model, inputs)])
                return res
            if not close(obs, fresh, rel=1e-12):
                depth = GM.depth(model, a, dp)
                b = 'stale:%s:depth%d%s' % (
                    'after-input-change' if changed else 'first-evaluation',
                    min(depth, 3), via)
                if obs[0] == 'X':
                    b = 'eval-exception:%s:%s' % (obs[1], obs[2])
                res.fail(b, fresh, obs, [step, op])
                return res
        else:
            v = inputs.get(a)
            want = vtag(v) if v is not None else ('Z',)
            if obs != want:
                res.fail('input-evaluates-to-other-value', want, obs,
                         [step, op])
                return res
        last_known[a] = obs
        alt.pop(a, None)
        # every formula cell the evaluation went through was recomputed
        # from the current inputs: that is now its last computed value
        if a in model['formulas'] and obs[0] != 'X':
            for dep in GM.closure(model, [a]):
                if dep in model['formulas'] and dep != a:
                    # (a lazily skipped IF branch may legitimately leave a
                    # dependency untouched: both values are acceptable)
                    t = R.tag(GM.ref_values(model, inputs, [dep])[dep])
                    if t is not None and dep in last_known:
                        alt.setdefault(dep, []).append(t)
                    elif t is None:
                        last_known.pop(dep, None)
        if obs[0] == 'X':
            continue
        try:
            g = norm(ev.get_cell_value(a))
        except Exception as err:  # noqa: BLE001
            g = exc_tag(err)
        if a in m.cells and not close(g, obs, rel=0):
            res.fail('get-after-eval', obs, g, [step, op])
            return res
    res.nontrivial = nontrivial
    res.labels = ('fixed' if 'fixed' in case else 'random',
                  'len:%d' % min(len(hist), 10))
    return res
