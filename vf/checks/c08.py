"""C08 - functions coerce arguments the Excel way, however the value is spelt."""
import importlib
import itertools

from vf.core.runner import Result
from vf.core import lib
from vf.core.norm import norm, exc_tag, close
from vf.gen import functable as FT
from vf.gen.decode import decoded
from vf.ref import refeval as R

ID = 'C08'
LEVEL = 'exploration'
EXHAUSTIVE = {'quick': True, 'thorough': True}
RULE = ('enumerated over the function table: every registered function with '
        'scalar numeric/text parameters (found by inspecting signatures) x '
        'every such position x every spelling of the sample value (int, '
        'float, numpy scalar, Number, decimal text, float text, scientific '
        'text, Text objects of those, bool/Boolean for 0 and 1, None/BLANK '
        'for 0; str/Text/int/Number/numpy.int64/bool for text parameters) '
        'must give the canonical (native) call\'s result; non-numeric text '
        'gives #VALUE!; the 5 arithmetic operators and & over all ordered '
        'pairs of 12 scalar operands against the reference coercions, as '
        'direct calls, cell formulas and literal formulas; every registered '
        'name in lower/mixed case and with _xlfn. through a formula; '
        'functions registered inside the case with register()+validate_args '
        'called directly and through evaluators created afterwards; sampled '
        '(thorough: drawn numeric values in the table positions).  '
        'Non-trivial = the spelling differs in type from the canonical one '
        'and the canonical call returns a value; distinct by case.')
ASSUMPTIONS = [
    'canonical spelling = native int/float resp. str; results compared after '
    'normalisation (Number(2) == 2 == 2.0)',
    'booleans as text arguments are compared case-insensitively with the '
    'result for "TRUE"/"FALSE"; number->text for whole numbers (as int, '
    'float, numpy float, negative zero)',
    'non-numeric text uses letters dateutil cannot read as a date (the '
    'library deliberately accepts date text as a number)',
    'array, expression (lazy) and variadic parameters are not spelled',
]

OPERANDS = [['n', 3], ['n', -2.5], ['n', 0], ['s', '7'], ['s', 'abc'],
            ['s', ''], ['b', True], ['b', False], ['z'], ['n', 10],
            ['s', '2.5'], ['s', '1e2'],
            # texts that Python's float() reads and a spreadsheet does not
            ['s', '1_0'], ['s', 'inf'], ['s', 'nan'], ['s', '-Infinity']]
ARITH = {'+': 'OP_ADD', '-': 'OP_SUB', '*': 'OP_MUL', '/': 'OP_DIV',
         '^': 'POWER', '&': 'CONCAT'}
NUM_SPELL = ['np', 'Number', 'dectext', 'floattext', 'scitext', 'Text',
             'TextSci', 'float', 'bool', 'Boolean', 'None', 'BLANK',
             'nonnumeric',
             # through a formula: the argument as a text literal, as a
             # reference to a cell holding text / a boolean, as a blank cell
             'f:textlit', 'f:scilit', 'f:textcell', 'f:boolcell',
             'f:boollit', 'f:blankcell', 'f:nonnumeric']
TEXT_SPELL = ['Text', 'int', 'Number', 'npint', 'bool', 'Boolean', 'float',
              'npfloat', 'negzero']
SKIP = (FT.VOLATILE | FT.LAZY | FT.PANDAS_BROKEN | FT.ERROR_INSPECTORS
        | {'RANDBETWEEN'})
DATE_SPELL = ['np', 'Number', 'dectext', 'floattext', 'Text', 'float']


def _funcs(xl):
    return [n for n in sorted(xl.FUNCTIONS) if n not in SKIP]


def enumerate_cases(tier, shard=0, nshards=1):
    xl = lib.lib()
    out = []
    for name in _funcs(xl):
        for si, args in enumerate(FT.samples_for(xl, name)):
            kinds = FT.kinds_of_args(xl, name, args)
            pk = FT.param_kinds(xl, name)
            for pos, k in enumerate(kinds):
                if pos < len(pk) and pk[min(pos, len(pk) - 1)][2]:
                    continue        # variadic
                if pos >= len(pk):
                    continue
                if k == 'num' or (k == 'date'):
                    # date parameters take serial numbers in every NUMERIC
                    # spelling; booleans/blanks there are not in the
                    # statement ('declared numeric')
                    for variant in ((None, 0, 1) if k == 'num' else (None,)):
                        for sp in (NUM_SPELL if k == 'num' else DATE_SPELL):
                            out.append({'k': 'spell', 'fn': name,
                                        'sample': si, 'pos': pos,
                                        'spelling': sp, 'variant': variant,
                                        'kind': k})
                elif k == 'text':
                    for variant in (None, 'digits'):
                        for sp in TEXT_SPELL:
                            out.append({'k': 'spell', 'fn': name,
                                        'sample': si, 'pos': pos,
                                        'spelling': sp, 'variant': variant,
                                        'kind': k})
        for variant in ('lower', 'mixed', 'xlfn', 'xlfnlower'):
            out.append({'k': 'name', 'fn': name, 'variant': variant})
    for sym in ARITH:
        for a, b in itertools.product(OPERANDS, repeat=2):
            for mode in ('call', 'cells', 'literal'):
                out.append({'k': 'arith', 'op': sym, 'a': a, 'b': b,
                            'mode': mode})
    for n in range(6):
        for sp in ('native', 'text', 'Text', 'bool', 'None', 'lower',
                   'sci'):
            out.append({'k': 'register', 'n': n, 'spelling': sp})
        # user functions of OTHER declared types made by the same factory
        # (same module, same qualified name, same parameter names)
        for ty, sps in (('text', ('number', 'text', 'float')),
                        ('bool', ('zero', 'one', 'TRUE', 'text'))):
            for sp in sps:
                out.append({'k': 'register', 'n': n, 'spelling': sp,
                            'ty': ty})
    for fn in ('AND', 'OR', 'NOT', 'IF', 'SUM', 'LEN'):
        for order in (['builtin', 'user'], ['user', 'builtin'], ['user'],
                      ['builtin', 'user', 'builtin']):
            out.append({'k': 'override', 'fn': fn, 'order': order})
    for i, c in enumerate(out):
        if i % nshards == shard:
            yield c


def _build(d):
    xl = lib.lib()
    def scalar_num_positions(n):
        args = FT.samples_for(xl, n)[0]
        kinds = FT.kinds_of_args(xl, n, args)
        pk = FT.param_kinds(xl, n)
        return [i for i, k in enumerate(kinds)
                if k == 'num' and i < len(pk) and not pk[i][2]]
    names = [n for n in _funcs(xl) if scalar_num_positions(n)]
    fn = d.choice(names)
    args = FT.samples_for(xl, fn)[0]
    poss = scalar_num_positions(fn)
    pos = d.choice(poss)
    mant = d.int(-99999, 99999)
    v = mant / d.choice([1, 10, 100, 1000, 8])
    if d.pick(3) == 0:
        v = float(int(v))
    return {'k': 'spell', 'fn': fn, 'sample': 0, 'pos': pos,
            'spelling': d.choice(NUM_SPELL[:8]), 'variant': None,
            'kind': 'num', 'value': v}


def strategy(tier):
    if tier == 'quick':
        return None
    return decoded(_build, min_size=12, max_size=24)


def budget(tier):
    return 0 if tier == 'quick' else 600000


# ------------------------------------------------------------------- judge

def _np():
    return importlib.import_module('numpy')


def _spell_num(v, sp):
    """-> (spelled value, applicable?)"""
    xl = lib.lib()
    integral = float(v) == int(v)
    if sp == 'np':
        np = _np()
        return (np.int64(int(v)) if integral and isinstance(v, int)
                else np.float64(v)), True
    if sp == 'Number':
        return xl.Number(v), True
    if sp == 'float':
        return float(v), isinstance(v, int)
    if sp == 'dectext':
        return (str(int(v)) if integral and isinstance(v, int)
                else repr(float(v))), 'e' not in repr(float(v))
    if sp == 'floattext':
        return repr(float(v)), 'e' not in repr(float(v))
    if sp == 'scitext':
        return '%re0' % v if isinstance(v, int) else '%.15e' % v, \
            float('%.15e' % v) == float(v)
    if sp == 'Text':
        return xl.Text(str(int(v)) if integral and isinstance(v, int)
                       else repr(float(v))), 'e' not in repr(float(v))
    if sp == 'TextSci':
        return xl.Text('%.15e' % v), float('%.15e' % v) == float(v)
    if sp == 'bool':
        return bool(v), v in (0, 1)
    if sp == 'Boolean':
        return xl.Boolean(bool(v)), v in (0, 1)
    if sp == 'None':
        return None, v == 0
    if sp == 'BLANK':
        return xl.BLANK, v == 0
    if sp == 'nonnumeric':
        return 'xyzzy', True
    raise ValueError(sp)


# texts that are NOT numbers although they start, end or look like one (none
# of them is a date for dateutil either)
NONNUM = ['xyzzy', 'truest', 'TRUE story', 'Falsetto', 'false!', 'x7', '7x',
          '1e5x', '7 x', '1,5x', '0x1F', '$7', '(7)', '#7', 'TRUEFALSE',
          'inf', 'nan', 'Infinity', '-inf', '1_0', '1e', 'e5', '.', '-',
          '1e400', u'\u0661\u0662x']


def _nonnum(fn, pos):
    import zlib
    return NONNUM[zlib.crc32(('%s/%d' % (fn, pos)).encode()) % len(NONNUM)]


def _spell_text(s, sp):
    xl = lib.lib()
    if sp == 'Text':
        return xl.Text(s), True
    digits = s.isdigit() and (s == '0' or not s.startswith('0'))
    if sp == 'int':
        return (int(s) if digits else None), digits
    if sp == 'Number':
        return (xl.Number(int(s)) if digits else None), digits
    if sp == 'npint':
        return (_np().int64(int(s)) if digits else None), digits
    if sp == 'float':
        # the same whole number held as a float: its text form is the same
        return (float(int(s)) if digits else None), digits and len(s) < 15
    if sp == 'npfloat':
        return (_np().float64(int(s)) if digits else None), \
            digits and len(s) < 15
    if sp == 'negzero':
        return -0.0, s == '0'
    if sp == 'bool':
        return (s == 'TRUE'), s in ('TRUE', 'FALSE')
    if sp == 'Boolean':
        return xl.Boolean(s == 'TRUE'), s in ('TRUE', 'FALSE')
    raise ValueError(sp)


def _call(name, *args):
    try:
        return norm(lib.fn(name)(*args))
    except KeyError:
        return ('X', 'KeyError', 'FUNCTIONS')
    except Exception as err:  # noqa: BLE001
        return exc_tag(err)


def _same(a, b, fold_case=False):
    if a == b:
        return True
    if close(a, b, rel=1e-12):
        return True
    if fold_case and a[0] == 'T' and b[0] == 'T':
        return a[1].upper() == b[1].upper()
    return False


def judge(case):
    res = Result()
    k = case['k']
    res.labels = (k,)
    if k == 'spell':
        return _spell(case, res)
    if k == 'name':
        return _name(case, res)
    if k == 'arith':
        return _arith(case, res)
    if k == 'override':
        return _override(case, res)
    return _register(case, res)


def _override(case, res):
    """a user function put into ONE evaluator's namespace under the name of
    a built-in (also of the lazily evaluated AND / OR / NOT / IF): that
    evaluator calls the user's function with evaluated VALUES, evaluators
    with the default namespace keep the built-in."""
    xl = lib.lib()
    fn, order = case['fn'], case['order']
    res.nontrivial = True

    def user(*values):
        # counts the arguments that are truthy VALUES (not wrapper objects)
        n = 0
        for v in values:
            if isinstance(v, (xl.Number, xl.Boolean, xl.Text, xl.Blank, int,
                              float, bool, str)) and bool(v):
                n += 1
            elif not isinstance(v, (xl.Number, xl.Boolean, xl.Text, xl.Blank,
                                    int, float, bool, str, type(None))):
                n += 100        # something that is not a value at all
        return n
    args = {'AND': 'A1>5,A2>5,A3', 'OR': 'A1>5,A3,A2>5', 'NOT': 'A1>5',
            'IF': 'A1>5,A2,A3', 'SUM': 'A1,A2,A3', 'LEN': 'A1'}[fn]
    want_user = {'AND': 0, 'OR': 0, 'NOT': 0, 'IF': 1, 'SUM': 2,
                 'LEN': 1}[fn]
    d = {'Sheet1!A1': 1, 'Sheet1!A2': 2, 'Sheet1!A3': 0,
         'Sheet1!B1': '=%s(%s)' % (fn, args)}
    want_builtin = {'AND': ('B', False), 'OR': ('B', False),
                    'NOT': ('B', True), 'IF': ('N', 0.0), 'SUM': ('N', 3.0),
                    'LEN': ('N', 1.0)}[fn]
    try:
        m = lib.compile_dict(d)
        ns = dict(xl.FUNCTIONS)
        ns[fn] = user
        obs = {}
        for who in order:
            ev = xl.Evaluator(m, namespace=ns) if who == 'user' \
                else xl.Evaluator(m)
            obs[who] = lib.evaluate(m, 'Sheet1!B1', ev)
    except Exception as err:  # noqa: BLE001
        res.fail('override-exception:%s' % fn, 'values', exc_tag(err), d)
        return res
    if obs.get('user', ('N', float(want_user))) != ('N', float(want_user)):
        res.fail('namespace-override:%s:%s' % (fn, '-'.join(order)),
                 ('N', float(want_user)), obs['user'], d['Sheet1!B1'])
    if obs.get('builtin', want_builtin) != want_builtin:
        res.fail('namespace-override-leaks:%s:%s' % (fn, '-'.join(order)),
                 want_builtin, obs['builtin'], d['Sheet1!B1'])
    return res


def _spell(case, res):
    xl = lib.lib()
    fn, pos, sp, variant = (case['fn'], case['pos'], case['spelling'],
                            case['variant'])
    args = list(FT.samples_for(xl, fn)[case['sample']])
    if 'value' in case:
        args[pos] = case['value']
    elif variant in (0, 1):
        args[pos] = variant
    elif variant == 'digits':
        args[pos] = '1203'
    if case['kind'] == 'text' and sp in ('bool', 'Boolean'):
        args[pos] = 'TRUE'
    canon = _call(fn, *args)
    res.labels += (fn, sp)
    if canon[0] in ('E', 'X'):
        res.labels += ('canonical-not-a-value',)
        return res
    if sp.startswith('f:'):
        return _spell_formula(case, res, fn, args, pos, sp, canon)
    if case['kind'] in ('num', 'date'):
        spelled, ok = _spell_num(args[pos], sp)
    else:
        spelled, ok = _spell_text(args[pos], sp)
    if not ok:
        res.labels += ('spelling-not-applicable',)
        return res
    sargs = list(args)
    sargs[pos] = spelled
    if sp == 'nonnumeric':
        res.nontrivial = True
        for t in ('xyzzy', _nonnum(fn, pos), _nonnum(fn, pos + 7)):
            sargs[pos] = t
            obs = _call(fn, *sargs)
            if obs != ('E', '#VALUE!'):
                b = 'nonnumeric-text:%s:pos%d' % (fn, pos)
                res.fail(b, ('E', '#VALUE!'), obs, [fn, pos, t])
                break
        return res
    obs = _call(fn, *sargs)
    res.nontrivial = True
    if not _same(obs, canon, fold_case=sp in ('bool', 'Boolean')):
        b = 'spelling:%s:pos%d:%s' % (fn, pos, sp)
        if obs[0] == 'X':
            b = 'spelling-exception:%s:pos%d:%s:%s' % (fn, pos, obs[1], sp)
        res.fail(b, canon, obs, [fn, pos, sp, repr(args[pos])])
    return res


def _spell_formula(case, res, fn, args, pos, sp, canon):
    xl = lib.lib()
    v = args[pos]
    if any(isinstance(a, list) for a in args) or isinstance(v, str):
        res.labels += ('spelling-not-applicable',)
        return res
    integral = float(v) == int(v)
    dec = str(int(v)) if integral and isinstance(v, int) else repr(float(v))
    cells, presets = {}, {}
    if sp == 'f:textlit':
        ok, arg = 'e' not in dec, '"%s"' % dec
    elif sp == 'f:scilit':
        ok, arg = float('%.15e' % v) == float(v), '"%.15e"' % v
    elif sp == 'f:textcell':
        ok, arg = 'e' not in dec, 'K9'
        cells['Sheet1!K9'] = dec
    elif sp == 'f:boolcell':
        ok, arg = v in (0, 1), 'K9'
        cells['Sheet1!K9'] = 5
        presets['Sheet1!K9'] = bool(v)
    elif sp == 'f:boollit':
        ok, arg = v in (0, 1), 'TRUE' if v else 'FALSE'
    elif sp == 'f:blankcell':
        ok, arg = v == 0, 'K9'
    else:
        ok, arg = True, '"%s"' % _nonnum(fn, pos + 3)
    if not ok:
        res.labels += ('spelling-not-applicable',)
        return res
    parts = [_flit(a) for a in args]
    parts[pos] = arg
    text = '=%s(%s)' % (fn, ','.join(parts))
    obs = lib.eval_formula(text, cells, addr='Sheet1!ZZ9', presets=presets)[0]
    res.nontrivial = True
    if sp == 'f:nonnumeric':
        if obs != ('E', '#VALUE!'):
            res.fail('nonnumeric-text:%s:pos%d:formula' % (fn, pos),
                     ('E', '#VALUE!'), obs, text)
        return res
    if not _same(obs, canon):
        b = 'spelling:%s:pos%d:%s' % (fn, pos, sp)
        if obs[0] == 'X':
            b = 'spelling-exception:%s:pos%d:%s:%s' % (fn, pos, obs[1], sp)
        res.fail(b, canon, obs, text)
    return res


def _flit(v):
    if isinstance(v, bool):
        return 'TRUE' if v else 'FALSE'
    if isinstance(v, str):
        return '"' + v.replace('"', '""') + '"'
    return repr(v) if v >= 0 else '(' + repr(v) + ')'


def _formula_for(xl, name, args):
    from vf.ref.refeval import num_to_col
    cells = {}
    parts = []
    col = 0
    for a in args:
        if isinstance(a, list):
            h, w = len(a), len(a[0])
            for r in range(h):
                for c in range(w):
                    cells['Sheet1!%s%d' % (num_to_col(col + c + 1),
                                           r + 1)] = a[r][c]
            parts.append('%s1:%s%d' % (num_to_col(col + 1),
                                       num_to_col(col + w), h))
            col += w + 1
        else:
            parts.append(_flit(a))
    return '(%s)' % ','.join(parts), cells


def _name(case, res):
    xl = lib.lib()
    fn, variant = case['fn'], case['variant']
    args = FT.samples_for(xl, fn)[0]
    tail, cells = _formula_for(xl, fn, args)
    base = lib.eval_formula('=' + fn + tail, cells, addr='Sheet1!ZZ9')[0]
    if fn.startswith('OP_'):
        res.labels += ('operator-function',)
    alt = {'lower': fn.lower(),
           'mixed': fn[:1].upper() + fn[1:].lower() if len(fn) > 1
           else fn.lower(),
           'xlfn': '_xlfn.' + fn, 'xlfnlower': '_xlfn.' + fn.lower()}[variant]
    obs = lib.eval_formula('=' + alt + tail, cells, addr='Sheet1!ZZ9')[0]
    res.nontrivial = base[0] not in ('X',)
    if base[0] == 'X':
        return res
    if not _same(obs, base):
        res.fail('name-resolution:%s' % variant, base, obs, '=' + alt + tail)
    return res


def _native(v):
    return None if v[0] == 'z' else v[1]


def _to_lib(v):
    xl = lib.lib()
    t = v[0]
    if t == 'n':
        return xl.Number(v[1])
    if t == 's':
        return xl.Text(v[1])
    if t == 'b':
        return xl.Boolean(v[1])
    return xl.BLANK


def _arith(case, res):
    sym, a, b, mode = case['op'], case['a'], case['b'], case['mode']
    want = R.tag(R.binop(sym, _native(a), _native(b)))
    if sym == '/' and want == ('E', '#VALUE!') and \
            R.to_number(_native(b)) == 0:
        want = None     # invalid text AND a zero divisor: which error wins
        # is not pinned down
    res.nontrivial = a[0] != b[0] and want is not None
    if want is None:
        res.labels += ('reference-abstains',)
        return res
    if mode == 'call':
        obs = _call(ARITH[sym], _to_lib(a), _to_lib(b))
        note = [ARITH[sym], a, b]
    elif mode == 'literal':
        la = _flit(_native(a)) if a[0] != 'z' else None
        lb = _flit(_native(b)) if b[0] != 'z' else None
        if la is None or lb is None:
            res.nontrivial = False
            return res
        note = '=%s%s%s' % (la, sym, lb)
        obs = lib.eval_formula(note)[0]
    else:
        cells, presets = {}, {}
        for addr, v in (('Sheet1!A1', a), ('Sheet1!B1', b)):
            if v[0] == 'z':
                continue
            if v[0] == 'n' or (v[0] == 's' and v[1] != ''):
                cells[addr] = v[1]
            else:
                cells[addr] = 0
                presets[addr] = v[1]
        note = '=A1%sB1' % sym
        obs = lib.eval_formula(note, cells, presets=presets)[0]
    ok = _same(obs, want)
    if not ok and want[0] == 'T' and obs[0] == 'T':
        from vf.core.norm import text_eq_mod_dot0
        ok = text_eq_mod_dot0(obs, want)
    if not ok:
        b_ = 'arith:%s:%s-%s:%s' % (sym, a[0], b[0], mode)
        if obs[0] == 'X':
            b_ = 'arith-exception:%s:%s:%s-%s' % (sym, obs[1], a[0], b[0])
        res.fail(b_, want, obs, note)
    return res


def _register_typed(case, res):
    xl = lib.lib()
    n, sp, ty = case['n'], case['spelling'], case['ty']
    xlmod = importlib.import_module('xlcalculator.xlfunctions.xl')
    name = '%sFN%d_VF' % (ty.upper(), n)
    res.nontrivial = True
    if ty == 'text':
        def impl(num: xl.XlText) -> xl.XlText:
            return str(num) + 'x' * (n + 1)
        lit_, want = {'number': ('12', ('T', '12' + 'x' * (n + 1))),
                      'text': ('"ab"', ('T', 'ab' + 'x' * (n + 1))),
                      'float': ('2.5', ('T', '2.5' + 'x' * (n + 1)))}[sp]
    else:
        def impl(num: xl.XlBoolean) -> xl.XlBoolean:
            return not num
        lit_, want = {'zero': ('0', ('B', True)), 'one': ('1', ('B', False)),
                      'TRUE': ('TRUE', ('B', False)),
                      'text': ('"xyzzy"', ('E', '#VALUE!'))}[sp]
    impl.__name__ = name
    try:
        try:
            xl.register()(xlmod.validate_args(impl))
        except Exception as err:  # noqa: BLE001
            t = exc_tag(err)
            res.fail('registration-exception:%s' % t[1],
                     'function registered', t, name)
            return res
        f = '=%s(%s)' % (name, lit_)
        o = lib.eval_formula(f)[0]
        if o != want:
            res.fail('registered:%s-typed:%s' % (ty, sp), want, o, f)
        # through a cell as well
        f2 = '=%s(A1)' % name
        cell = {'12': 12, '"ab"': 'ab', '2.5': 2.5, '0': 0, '1': 1,
                '"xyzzy"': 'xyzzy'}.get(lit_)
        if cell is not None:
            o2 = lib.eval_formula(f2, {'Sheet1!A1': cell},
                                  addr='Sheet1!Z1')[0]
            if o2 != want:
                res.fail('registered:%s-typed:%s:cell' % (ty, sp), want, o2,
                         [f2, cell])
    finally:
        xl.FUNCTIONS.pop(name, None)
    return res


def _register(case, res):
    if case.get('ty'):
        return _register_typed(case, res)
    xl = lib.lib()
    n, sp = case['n'], case['spelling']
    xlmod = importlib.import_module('xlcalculator.xlfunctions.xl')
    name = 'ADDN%d_VF' % n
    res.nontrivial = True

    def impl(num: xl.XlNumber) -> xl.XlNumber:
        return num + n

    impl.__name__ = name
    try:
        try:
            # package-level decorator, as a user would write it
            f = xl.register()(xlmod.validate_args(impl))
        except Exception as err:  # noqa: BLE001
            t = exc_tag(err)
            res.fail('registration-exception:%s' % t[1],
                     'function registered', t, name)
            return res
        arg = {'native': 1, 'text': '1', 'Text': xl.Text('1'), 'bool': True,
               'None': None, 'lower': 1, 'sci': '1e0'}[sp]
        base = 0.0 if sp == 'None' else 1.0
        want = ('N', base + n)
        o = _call(name, arg)
        if o != want:
            res.fail('registered:direct:%s' % sp, want, o, name)
        flit = {'native': '1', 'text': '"1"', 'Text': '"1"', 'bool': 'TRUE',
                'None': 'B7', 'lower': '1', 'sci': '"1e0"'}[sp]
        fname = name.lower() if sp == 'lower' else name
        o2 = lib.eval_formula('=%s(%s)' % (fname, flit))[0]
        if o2 != want:
            res.fail('registered:formula:%s' % sp, want, o2,
                     '=%s(%s)' % (fname, flit))
        o3 = lib.eval_formula('=%s("xyzzy")' % name)[0]
        if o3 != ('E', '#VALUE!'):
            res.fail('registered:nonnumeric', ('E', '#VALUE!'), o3, name)
        # the SAME model, evaluated once, then the name is registered again
        # with another implementation: an evaluator created afterwards over
        # that model must see the new function
        try:
            m = lib.compile_dict({'Sheet1!A1': '=%s(1)' % name,
                                  'Sheet1!A2': '=A1*2'})
            first = lib.evaluate(m, 'Sheet1!A2', xl.Evaluator(m))

            def impl2(num: xl.XlNumber) -> xl.XlNumber:
                return num + n + 100
            impl2.__name__ = name
            xl.register()(xlmod.validate_args(impl2))
            second = lib.evaluate(m, 'Sheet1!A2', xl.Evaluator(m))
            if first != ('N', 2.0 * (1 + n)) or second != (
                    'N', 2.0 * (1 + n + 100)):
                res.fail('registered:re-registration-not-seen',
                         [('N', 2.0 * (1 + n)), ('N', 2.0 * (101 + n))],
                         [first, second], name)
        except Exception as err:  # noqa: BLE001
            res.fail('registered:re-registration-exception', 'values',
                     exc_tag(err), name)
        del f
    finally:
        xl.FUNCTIONS.pop(name, None)
    return res
