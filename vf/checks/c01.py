"""C01 - formulas evaluate under Excel's operator precedence/associativity."""
import itertools
import re

from hypothesis import strategies as st

from vf.core.runner import Result
from vf.core import lib
from vf.core.norm import norm, close, exc_tag
from vf.ref import refeval as R
from vf.gen.decode import decoded

ID = 'C01'
LEVEL = 'exploration'
RULE = ('enumerated: every ordered pair and triple of the 12 binary '
        'operators in flat form a op b op c [op d], in all 2 resp. 5 '
        'bracketings, each also with a unary minus before every operand '
        'position, under several leaf assignments of distinct small primes '
        '(cells and literals), one with a zero divisor; sampled: Hypothesis '
        'recursive trees (depth<=6; thorough 8) with plain/percent/scientific '
        'literals and cell references, rendered with minimal or redundant '
        'parentheses and blanks at token boundaries.  Oracle S: independent '
        'reference evaluator; oracle G: the reference tree folded with the '
        "library's own operator callables.  Non-trivial = at least two "
        'operators and some single re-association of the reference tree '
        'changes the reference value, or a percent/scientific literal next to '
        'an operator; distinct by (tree, rendering, cells).')
ASSUMPTIONS = [
    'S abstains (UNDEF) on 0^0, 0^negative, negative base with fractional '
    'exponent, number->text of integral floats and boolean->text casing, '
    'collation of non-alphanumeric text; G still decides the parse there',
    'formulas with two or more ^ use leaves 2,3 alternating and at most three '
    '^ so every (mis)bracketing stays computable',
]

OPS = R.BINOPS
UNOP = {'+': 'OP_ADD', '-': 'OP_SUB', '*': 'OP_MUL', '/': 'OP_DIV',
        '^': 'POWER', '&': 'CONCAT', '=': 'OP_EQ', '<>': 'OP_NE',
        '<': 'OP_LT', '>': 'OP_GT', '<=': 'OP_LE', '>=': 'OP_GE'}
CELLS4 = ['A1', 'B1', 'C1', 'D1']
SCI_OK = re.compile(r'^[1-9](\.[0-9]+)?[eE][+-]?[0-9]+$')


# ---------------------------------------------------------------- enumeration

def _shapes(n):
    """All bracketings of n leaves as nested index pairs."""
    if n == 1:
        return [0]

    def rec(lo, hi):
        if hi - lo == 1:
            return [lo]
        out = []
        for mid in range(lo + 1, hi):
            for l in rec(lo, mid):
                for r in rec(mid, hi):
                    out.append((l, r, mid - 1))
        return out
    return rec(0, n)


def _build(shape, leaves, ops):
    if isinstance(shape, int):
        return leaves[shape]
    l, r, opi = shape
    return ['op', ops[opi], _build(l, leaves, ops), _build(r, leaves, ops)]


def _assignments(nleaves, npow):
    """(leaves, cells) choices."""
    out = []
    if npow >= 2:
        vals = [2, 3, 2, 3][:nleaves]
        out.append(([['ref', c] for c in CELLS4[:nleaves]],
                    {'Sheet1!' + c: v for c, v in zip(CELLS4, vals)}))
        out.append(([['num', str(v)] for v in vals], {}))
        return out
    primes = [2, 3, 5, 7][:nleaves]
    out.append(([['ref', c] for c in CELLS4[:nleaves]],
                {'Sheet1!' + c: v for c, v in zip(CELLS4, primes)}))
    out.append(([['num', str(v)] for v in reversed(primes)], {}))
    zero = [6, 0, 3, 2][:nleaves]
    out.append(([['ref', c] for c in CELLS4[:nleaves]],
                {'Sheet1!' + c: v for c, v in zip(CELLS4, zero)}))
    return out


def _all_small(shapes, leaves, ops, cells):
    """True when no bracketing of the flat formula (right or wrong) runs
    into the big-power guard, so that even a mis-parsing library stays
    computable."""
    env = R.Env(cells=cells)
    R.BIG[0] = 0
    for shape in shapes:
        R.evaluate(_build(shape, leaves, ops), env)
    return R.BIG[0] == 0


def enumerate_cases(tier, shard=0, nshards=1):
    for n in (3, 4):
        shapes = _shapes(n)
        for oi, ops in enumerate(itertools.product(OPS, repeat=n - 1)):
            if oi % nshards != shard:
                continue
            npow = ops.count('^')
            assigns = _assignments(n, npow)
            if tier == 'quick' and n == 4:
                assigns = assigns[:2]
            for ai, (leaves, cells) in enumerate(assigns):
                if npow and not _all_small(shapes, leaves, ops, cells):
                    continue
                for shape in shapes:
                    for negpos in [None] + list(range(n)):
                        lv = list(leaves)
                        if negpos is not None:
                            if n == 4 and ai > 0:
                                continue
                            lv[negpos] = ['neg', lv[negpos]]
                        tree = _build(shape, lv, ops)
                        yield {'tree': tree, 'text': '=' + R.render(tree),
                               'cells': cells}
                    if n == 3 and leaves[0][0] == 'ref' and not npow:
                        # the postfix percent operator on each reference
                        for pp in range(n):
                            lv = list(leaves)
                            lv[pp] = ['pctref', lv[pp][1]]
                            tree = _build(shape, lv, ops)
                            yield {'tree': tree,
                                   'text': '=' + R.render(tree),
                                   'cells': cells}


    # whole literals at and beyond 2^53 WRITTEN AS FLOATS (scientific
    # notation, trailing .0): floating-point numbers, so that L+1-L is 0 and
    # L+1=L holds - whatever spelling of the same value is used
    if shard == 0:
        for L in ('1E16', '1E+16', '10000000000000000.0', '1e20',
                  '9007199254740992.0', '2E16', '1.0E16', '100E14'):
            for sm in ('1', '3'):
                for t in (
                        ['op', '-', ['op', '+', ['num', L], ['num', sm]],
                         ['num', L]],
                        ['op', '=', ['op', '+', ['num', L], ['num', sm]],
                         ['num', L]],
                        ['op', '-', ['op', '-', ['num', L], ['num', sm]],
                         ['num', L]],
                        ['op', '>', ['op', '+', ['num', sm], ['num', L]],
                         ['num', L]],
                        ['op', '=', ['op', '*', ['num', L], ['num', L]],
                         ['op', '^', ['num', L], ['num', '2']]]):
                    yield {'tree': t, 'text': '=' + R.render(t), 'cells': {}}
        # whole numbers of the TOP BINADE of the doubles (2^1023 .. 1.797e308)
        # are ordinary operands; results beyond it are #NUM!
        p308 = ['op', '^', ['num', '10'], ['num', '308']]
        p307 = ['op', '^', ['num', '10'], ['num', '307']]
        p1022 = ['op', '^', ['num', '2'], ['num', '1022']]
        big = {'Sheet1!A1': 10 ** 308, 'Sheet1!B1': 2 ** 1023}
        for t, cells in (
                (['op', '+', p308, ['num', '0']], {}),
                (['neg', ['par', p308]], {}),
                (['op', '*', p307, ['num', '9']], {}),
                (['op', '*', p1022, ['num', '2']], {}),
                (['op', '-', ['op', '*', p1022, ['num', '2']], ['num', '1']],
                 {}),
                (['op', '*', p308, ['num', '2']], {}),
                (['op', '*', ['ref', 'A1'], ['num', '1']], big),
                (['neg', ['ref', 'A1']], big),
                (['op', '-', ['ref', 'B1'], ['num', '1']], big),
                (['op', '+', ['ref', 'A1'], ['ref', 'A1']], big),
                (['op', '>', ['op', '+', ['ref', 'B1'], ['num', '0']],
                  p307], big)):
            yield {'tree': t, 'text': '=' + R.render(t), 'cells': cells}


# ------------------------------------------------------------------- sampling

LITS = (['2', '3', '5', '7', '11', '13', '4', '10', '0', '1', '25', '007',
         '5.', '10.', '03'],
        ['2.5', '0.5', '1.25', '7.75', '10.5', '0.125', '.5', '.25', '.125',
         '2.50', '00.5'],
        ['50%', '5%', '200%', '12.5%', '100%', '3%'],
        ['1E1', '2E2', '1.5E1', '3e1', '2.5e+1', '1E+2', '5E-1', '2.5E-1',
         '1.25e-1', '1E0', '7E+0', '12E1', '10e+1', '0.5e-1', '25E-1',
         '1.5E+02', '.5e1', '5.E1', '.25E+1', '1e+001'])
REFS = ['A1', 'B1', 'C1', 'D1', 'A2', 'B2', 'C2', 'D2', 'A3', 'B3', 'C3',
        'D3', 'A4', 'B4', 'C4', 'D4']
POOL = [2, 3, 5, 7, 11, 13, 17, 19, 23, 29, 31, 37, 41, 43, 47, 53]


def _leaf(d):
    k = d.pick(8)
    if k < 3:
        # (every fifth reference carries the postfix percent operator)
        return [d.choice(['ref', 'ref', 'ref', 'ref', 'pctref']),
                d.choice(REFS)]
    if k < 5:
        return ['num', d.choice(LITS[0])]
    return ['num', d.choice(LITS[k - 4])] if k < 8 else None


def _tree(d, depth, top=False):
    if depth <= 0 or (d.left() <= 0 and not top):
        return _leaf(d)
    k = d.pick(10)
    if top and k < 2:
        k = 2 + k
    if k < 2:
        return _leaf(d)
    if k < 8:
        return ['op', d.choice(OPS), _tree(d, depth - 1), _tree(d, depth - 1)]
    if k == 8:
        return ['neg', _tree(d, depth - 1)]
    return ['par', _tree(d, depth - 1)]


_SMALL = {'int': ('2', '3'), 'dec': ('2.5', '1.5'), 'pct': ('200%', '300%'),
          'sci': ('2E0', '3e+0')}


def _kind(lit):
    if lit.endswith('%'):
        return 'pct'
    if 'e' in lit.lower():
        return 'sci'
    return 'dec' if '.' in lit else 'int'


def _tame_powers(tree):
    """Keeps every bracketing - also the wrong ones a broken parser might
    choose - computable: a formula containing ^ has at most three of them,
    no & (digit concatenation builds huge exponents) and all its numeric
    leaves become 2 / 3 alternating (same kind of literal or a cell)."""
    count = [0]

    def cnt(t):
        if t[0] == 'op':
            count[0] += t[1] == '^'
            cnt(t[2]), cnt(t[3])
        elif t[0] in ('neg', 'par'):
            cnt(t[1])
    cnt(tree)
    if count[0] == 0:
        return tree, None
    count[0] = 0

    def cap(t):
        k = t[0]
        if k == 'op':
            sym = t[1]
            if sym == '^':
                count[0] += 1
                if count[0] > 3:
                    sym = '*'
            elif sym == '&':
                sym = '+'
            return ['op', sym, cap(t[2]), cap(t[3])]
        if k in ('neg', 'par'):
            return [k, cap(t[1])]
        return t
    tree = cap(tree)
    idx = [0]
    cells = {}

    def leaves(t):
        k = t[0]
        if k == 'op':
            return ['op', t[1], leaves(t[2]), leaves(t[3])]
        if k in ('neg', 'par'):
            return [k, leaves(t[1])]
        v = (2, 3)[idx[0] % 2]
        idx[0] += 1
        if k in ('ref', 'pctref'):
            # distinct cell per occurrence index parity
            name = 'A1' if v == 2 else 'B1'
            cells['Sheet1!' + name] = v
            return ['ref', name]
        return ['num', _SMALL[_kind(t[1])][v - 2]]
    return leaves(tree), cells


def _drop_last_pow(tree):
    seen = [False]

    def rec(t):
        k = t[0]
        if k == 'op':
            r = rec(t[3])
            sym = t[1]
            if sym == '^' and not seen[0]:
                seen[0] = True
                sym = '*'
            l = rec(t[2])
            return ['op', sym, l, r]
        if k in ('neg', 'par'):
            return [k, rec(t[1])]
        return t
    return rec(tree)


def _build_case(d, depth):
    # rendering choices first, so that short inputs still vary them
    style = d.pick(5)
    mask = d.pick(65536)
    lead = d.choice(['', '', ' '])
    trail = d.choice(['', '', ' ', '  '])
    rot = d.pick(16)
    step = d.choice([1, 3, 5, 7, 9, 11, 13, 15])
    neg = d.chance(1, 2)
    zero = d.chance(1, 10)
    tree = _tree(d, depth, top=True)
    tree, forced = _tame_powers(tree)
    if forced is not None:
        cells = forced
        # the correct parse must be cheap to evaluate: while the reference
        # evaluation runs into the big-power guard, turn the last ^ into *
        for _ in range(4):
            R.BIG[0] = 0
            R.evaluate(tree, R.Env(cells=cells))
            if not R.BIG[0]:
                break
            tree = _drop_last_pow(tree)
    else:
        cells = {}
        for i, r in enumerate(REFS):
            v = POOL[(rot + i * step) % 16]
            if i % 5 == 4 and neg:
                v = -v
            if i % 7 == 6:
                v = v + 0.5
            cells['Sheet1!' + r] = v
        if zero:
            cells['Sheet1!B1'] = 0
    if style < 2:
        ws = None
        lead = trail = ''
    else:
        state = [0]
        wide = style == 4

        def ws():
            bit = (mask >> (state[0] % 16)) & 1
            state[0] += 1
            if not bit:
                return ''
            return '  ' if wide and state[0] % 3 == 0 else ' '
    body = R.render(tree, ws)
    text = '=' + lead + body + trail
    used = set(re.findall(r'[A-D][1-4]', body))
    cells = {k: v for k, v in cells.items() if k.split('!')[1] in used}
    return {'tree': tree, 'text': text, 'cells': cells}


def strategy(tier):
    depth = 5 if tier == 'quick' else 7
    return decoded(lambda d: _build_case(d, depth),
                   min_size=24, max_size=96 if tier == 'quick' else 400)


def budget(tier):
    return 36000 if tier == 'quick' else 3000000


# -------------------------------------------------------------------- oracles

def _g_leaf(t, cells):
    xl = lib.lib()
    if t[0] == 'num':
        return xl.Number(R.literal_value(t[1]))
    v = cells.get('Sheet1!' + t[1])
    g = xl.BLANK if v is None else xl.Number(v)
    if t[0] == 'pctref':
        return _g_apply('OP_PERCENT', g)
    return g


def _fold(tree, cells, env, diverge):
    """Parallel fold: returns (S native value, G library value or exc tag)."""
    k = tree[0]
    if k in ('num', 'ref', 'pctref'):
        s = R.evaluate(tree, env)
        return s, _g_leaf(tree, cells)
    if k == 'par':
        return _fold(tree[1], cells, env, diverge)
    if k == 'neg':
        s, g = _fold(tree[1], cells, env, diverge)
        s2 = R.negate(s)
        g2 = _g_apply('OP_NEG', g)
        _note(diverge, 'u-', s2, g2)
        return s2, g2
    s1, g1 = _fold(tree[2], cells, env, diverge)
    s2, g2 = _fold(tree[3], cells, env, diverge)
    s = R.binop(tree[1], s1, s2)
    g = _g_apply(UNOP[tree[1]], g1, g2)
    _note(diverge, tree[1], s, g)
    return s, g


def _g_apply(name, *args):
    for a in args:
        if isinstance(a, tuple) and a and a[0] == 'X':
            return a
    try:
        return lib.fn(name)(*args)
    except Exception as err:  # noqa: BLE001
        return exc_tag(err)


def _gtag(g):
    if isinstance(g, tuple) and g and g[0] == 'X':
        return g
    return norm(g)


def _note(diverge, sym, s, g):
    if diverge:
        return
    st_ = R.tag(s)
    if st_ is None:
        return
    if not close(st_, _gtag(g), rel=1e-12):
        diverge.append(sym)


def _rotations(t):
    """Single re-associations of a stripped tree (bounded)."""
    out = []

    def rec(node, rebuild):
        if len(out) > 24:
            return
        k = node[0]
        if k == 'op':
            _, s1, l, r = node
            if l[0] == 'op':
                out.append(rebuild(['op', l[1], l[2], ['op', s1, l[3], r]]))
            if r[0] == 'op':
                out.append(rebuild(['op', r[1], ['op', s1, l, r[2]], r[3]]))
            if l[0] == 'neg':
                out.append(rebuild(['neg', ['op', s1, l[1], r]]))
            rec(l, lambda x: rebuild(['op', s1, x, r]))
            rec(r, lambda x: rebuild(['op', s1, l, x]))
        elif k == 'neg':
            inner = node[1]
            if inner[0] == 'op':
                out.append(rebuild(['op', inner[1], ['neg', inner[2]],
                                    inner[3]]))
            rec(inner, lambda x: rebuild(['neg', x]))
    rec(t, lambda x: x)
    return out


def _features(case):
    tree, text = case['tree'], case['text']
    feats = []
    if text[-1:] in (' ', '\n'):
        feats.append('trailing-blank')
    lits = []

    def walk(t):
        if t[0] == 'num':
            lits.append(t[1])
        elif t[0] == 'pctref':
            lits.append('%')
        elif t[0] == 'op':
            walk(t[2]), walk(t[3])
        elif t[0] in ('neg', 'par'):
            walk(t[1])
    walk(tree)
    for l in lits:
        if ('e' in l.lower()) and not SCI_OK.match(l):
            feats.append('sci-unnormalised-mantissa')
            break
    if any('e' in l.lower() for l in lits):
        feats.append('sci')
    if any(l.endswith('%') for l in lits):
        feats.append('percent')
    return feats


def judge(case):
    res = Result()
    tree, text, cells = case['tree'], case['text'], case['cells']
    env = R.Env(cells=cells)
    diverge = []
    s, g = _fold(tree, cells, env, diverge)
    s_tag, g_tag = R.tag(s), _gtag(g)
    obs, stage = lib.eval_formula(text, cells)
    feats = _features(case)
    stripped = R.strip_par(tree)
    nops = len(R.ops_in(stripped))
    nt = False
    if nops >= 2 and s_tag is not None:
        for alt in _rotations(stripped):
            a = R.tag(R.evaluate(alt, env))
            if a != s_tag:
                nt = True
                break
    if not nt and nops >= 1 and ('sci' in feats or 'percent' in feats):
        nt = True
    res.nontrivial = nt
    res.labels = tuple(feats) + (
        ('S-defined',) if s_tag is not None else ('S-abstains',)) + (
        ('blanks',) if ' ' in text else ()) + (
        ('redundant-parens',) if tree != stripped else ())
    feat = feats[0] if feats else 'plain'
    # oracle G: parse tree = reference tree
    g_ok = (obs == g_tag) or (obs[0] == 'X' and g_tag[0] == 'X'
                              and obs[1] == g_tag[1]) or close(
                                  obs, g_tag, rel=0)
    if not g_ok:
        if obs[0] == 'X' and stage == 'compile':
            b = 'parse-exception:%s:%s:%s' % (obs[1], obs[2], feat)
        elif obs[0] == 'X':
            b = 'eval-exception:%s:%s:%s' % (obs[1], obs[2], feat)
        else:
            b = 'tree:%s' % feat
        res.fail(b, {'G': g_tag, 'S': s_tag}, obs, text)
        return res
    # oracle S: value under the reference semantics
    if s_tag is not None and not close(obs, s_tag, rel=1e-12):
        sym = diverge[0] if diverge else '?'
        if obs[0] == 'X':
            res.fail('eval-exception:%s:%s' % (obs[1], obs[2]), s_tag, obs,
                     text)
        else:
            res.fail('semantics:%s' % sym, s_tag, obs, text)
    return res


def fuzz_build(d):
    """builder for the Atheris target (same decoder as the strategy)"""
    return _build_case(d, 6)


def extra(tier, seed, shard, nshards, hb, acc):
    if tier != 'thorough':
        return
    from vf.core import fuzz
    import sys
    fuzz.campaign(sys.modules[__name__], 'fuzz_build', 120000, seed, shard, hb,
                  acc)
