"""C12 - a persisted model restores to an equivalent model."""
import datetime
import gzip
import json
import os
import shutil
import tempfile

from vf.core.runner import Result
from vf.core import lib
from vf.core.norm import norm, root_exc, exc_tag, close
from vf.gen import models as GM
from vf.gen import xlsxmin
from vf.gen.decode import decoded
from vf.ref import refeval as R

ID = 'C12'
LEVEL = 'exploration'
RULE = ('sampled (Hypothesis-decoded): random acyclic models enriched with '
        'every value type (non-ASCII and quote-laden text, +-1e300, 5e-324, '
        'booleans, dates, formulas yielding each error), ranges, several '
        'sheets, a third loaded from a generated .xlsx with defined names '
        'for cells and ranges; a history of compile / evaluate(c) / '
        'set(i, v) steps with persist-and-restore (extensions .json .gz '
        '.gzip .JSON.GZ) at a drawn point, including before compilation '
        '(build_code=False) and after everything was evaluated.  Oracle: '
        'deep comparison original <-> restored: same address set, per '
        'address same normalised value and formula text, same formulae '
        'keys, defined names bound to the same addresses / matrices, same '
        'ranges; after build_code every cell evaluates to the same value in '
        'both; the restored model persists again to an equal model; .gz/'
        '.gzip files start with the gzip magic and hold JSON, others are '
        'JSON text.  Non-trivial = persisted after >= 1 evaluate or set, or '
        'the model has a range and a name; distinct by (model, history).')
ASSUMPTIONS = [
    'values are compared after normalisation (a Number 2 restored as 2.0 '
    'is equal; the type tag must survive)',
]
CASE_LIMIT_S = 60
EXTS = ['.json', '.gz', '.gzip', '.JSON.GZ', '.dat']
EXTRA_VALUES = [
    ['s', u'héllo wörld'], ['s', 'say "hi"'], ['s', "it's"],
    ['s', 'a,b;c:{d}'], ['n', 1e300], ['n', -1e300], ['n', 5e-324],
    ['n', 0.1], ['b', True], ['b', False], ['d', 43831], ['s', ''],
    ['s', ' lead'], ['n', 12345678901234567890], ['s', '=not a formula'],
    ['n', 12345678901234567], ['n', 9007199254740993],
    ['n', -100000000000000007],
    ['s', u'日本語'], ['n', -0.0],
    # dates WITH a time of day, down to fractions of a second
    ['d', 43831.5], ['d', 44260.524270833], ['d', 36526.000011574],
    ['d', 61.999988426],
]
ERR_FORMULAS = ['=1/0', '=NA()', '="a"+1', '=SQRT(-1)', '=#REF!',
                '=#NAME?', '=#NULL!']
# formulas whose RESULT is of a particular kind: empty text, boolean, zero,
# text spelling a number/boolean, integer-valued float, date
KIND_FORMULAS = ['=IF(A1>5,"big","")', '=LEFT("abc",0)', '=A1&""', '=1=1',
                 '=""', '="x"&"y"', '=A1*0', '=DATE(2020,1,2)', '=1=2',
                 '=A1/4', '="TRUE"', '="12"', '=8/4', '=-A1*0',
                 u'="\xe9"&"\xdf"', '=IF(A1>1000,1,)',
                 '=99999999*99999999', '=9007199254740992+1']
TMP = [None]


def tmpdir():
    if TMP[0] is None:
        TMP[0] = tempfile.mkdtemp(prefix='vf_c12_')
        import atexit
        atexit.register(shutil.rmtree, TMP[0], True)
    return TMP[0]


def _build(d):
    model = GM.build_model(d)
    extras = {}
    for i in range(d.pick(5)):
        extras['Sheet1!G%d' % (i + 1)] = d.choice(EXTRA_VALUES)
    if d.chance(1, 16):
        # long non-ASCII texts: the JSON grows beyond 64 KiB / 128 KiB
        extras['Sheet1!G7'] = ['s', d.choice([u'é', u'日本', u'aé', u'\U0001F600x'])
                               * d.choice([20000, 33000, 70001])]
        extras['Sheet1!G8'] = ['s', u'ü' + 'x' * d.choice([65530, 65535,
                                                          65536, 131071])]
    errs = {}
    for i in range(d.pick(3)):
        errs['Sheet1!H%d' % (i + 1)] = d.choice(ERR_FORMULAS)
    if errs and d.pick(2):
        errs['Sheet1!H9'] = '=H1+1'
    for i in range(d.pick(4)):
        errs['Sheet1!I%d' % (i + 1)] = d.choice(KIND_FORMULAS)
    if d.pick(4) == 0:
        # a DATE WITH A TIME OF DAY handed on by formulas (the evaluated
        # cells hold date values of their own when the model is persisted)
        extras['Sheet1!G9'] = ['d', d.choice([44260.524270833, 43831.5,
                                              36526.000011574, 44000.25])]
        errs['Sheet1!I8'] = '=G9'
        errs['Sheet1!I9'] = '=IF(G9>0,G9,0)'
    names = []
    if d.pick(3) == 0:
        model = GM.workbook_safe(model)
        cand = sorted(model['inputs']) + model['order']
        for j in range(d.int(1, 2)):
            names.append({'name': 'Nm%d' % j, 'addr': d.choice(cand)})
        if d.pick(2):
            names.append({'name': 'NmRange', 'range': 'Sheet1!A1:B2'})
            # a formula that uses the names (so the named range is actually
            # evaluated before some of the persists)
            model['formulas']['Sheet1!F1'] = ['op', '+', ['call', 'SUM', [
                ['ref', 'NmRange']]], ['ref', names[0]['name']]]
            model['order'].append('Sheet1!F1')
    hist = []
    cells = model['order'] + sorted(model['inputs']) + sorted(errs)
    for _ in range(d.pick(7)):
        if d.pick(2) and model['order']:
            hist.append(['eval', d.choice(cells)])
        else:
            hist.append(['set', d.choice(sorted(model['inputs'])),
                         d.choice([0, 1, -3, 2.5, 100, True, 'text', 7.0])])
    if d.pick(4) == 0:
        hist = [['eval', c] for c in model['order'] + sorted(errs)] + hist
    # the same model object is persisted MORE THAN ONCE: earlier writes at
    # random points of the history (only the last file is restored)
    for _ in range(d.pick(3)):
        hist.insert(d.pick(len(hist) + 1), ['persist', d.choice(EXTS)])
    post = [[d.choice(sorted(model['inputs'])),
             d.choice([0, 1, -3, 2.5, 100, 7.0])] for _ in range(d.pick(3))]
    return {'model': model, 'extras': extras, 'errs': errs, 'names': names,
            'dirty': d.pick(4) == 0,
            'history': hist, 'ext': d.choice(EXTS),
            'precompile': d.pick(6) == 0, 'post': post}


def strategy(tier):
    return decoded(_build, min_size=48, max_size=220)


def budget(tier):
    return 1500 if tier == 'quick' else 80000


def enumerate_cases(tier, shard=0, nshards=1):
    base = {'inputs': {'Sheet1!A1': 2, 'Sheet1!A2': 3},
            'formulas': {'Sheet1!B1': ['call', 'SUM', [['range', 'A1:A2']]],
                         'Sheet1!C1': ['op', '*', ['ref', 'B1'],
                                       ['num', '2']]},
            'order': ['Sheet1!B1', 'Sheet1!C1'], 'sheets': ['Sheet1']}
    i = 0
    for ext in EXTS:
        for hist in ([], [['eval', 'Sheet1!C1']],
                     [['set', 'Sheet1!A1', 9]],
                     [['eval', 'Sheet1!C1'], ['set', 'Sheet1!A1', 9],
                      ['eval', 'Sheet1!B1']]):
            for pre in (False, True):
                for names in ([], [{'name': 'In1', 'addr': 'Sheet1!A1'},
                                   {'name': 'Rng', 'range':
                                    'Sheet1!A1:A2'}]):
                    i += 1
                    if i % nshards != shard:
                        continue
                    if not names:
                        # sheets named in capitals / differing in case only,
                        # ranges in columns whose letters occur in the name
                        from vf.checks.c13 import FIXED as F13
                        yield {'model': F13[-1], 'extras': {}, 'errs': {
                            'data!H1': '=SUM(DATA!A1:A2,A1:A2)',
                            'DATA!T9': '=SUM(D1:D2,T1:T2,A1:A2)'},
                            'names': [], 'history': [
                                [h[0]] + [x.replace('Sheet1!C1', 'Report!C1')
                                          .replace('Sheet1!B1', 'Report!B2')
                                          .replace('Sheet1!A1', 'DATA!A1')
                                          if isinstance(x, str) else x
                                          for x in h[1:]] for h in hist],
                            'ext': ext, 'precompile': pre and not hist}
                    yield {'model': base,
                           'extras': {'Sheet1!G1': ['s', u'ü "q"'],
                                      'Sheet1!G2': ['b', True],
                                      'Sheet1!G3': ['d', 43831],
                                      'Sheet1!G4': ['n', 1e300]},
                           'errs': {'Sheet1!H1': '=1/0',
                                    'Sheet1!H2': '=NA()'},
                           'names': names, 'history': hist, 'ext': ext,
                           'precompile': pre and not hist}


def _native(v):
    t = v[0]
    if t == 'd':
        return datetime.datetime(1899, 12, 30) + datetime.timedelta(
            days=v[1])
    return v[1]


def _compile(case, build_code=True):
    xl = lib.lib()
    model = case['model']
    names = case.get('names') or []
    presets = {}
    if not names:
        d = GM.to_dict(model)
        for a, v in case['extras'].items():
            if v[0] == 'n' or (v[0] == 's' and v[1] != ''
                               and not v[1].startswith('=')):
                d[a] = v[1]
            else:
                d[a] = 0
                presets[a] = _native(v)
        d.update(case['errs'])
        import zlib
        items = list(d.items())
        ak = zlib.crc32(repr(sorted(map(repr, items))).encode()) % 3
        if ak == 1:
            items.reverse()     # formulas before the cells they use
        elif ak == 2:
            items.sort(key=lambda kv: kv[0], reverse=True)
        m = xl.ModelCompiler().read_and_parse_dict(dict(items),
                                                   build_code=build_code)
    else:
        per = {s: {} for s in model['sheets']}
        for a, v in model['inputs'].items():
            s, a1 = a.split('!')
            per[s][a1] = {'kind': 'n', 'v': v}
        for a, t in model['formulas'].items():
            s, a1 = a.split('!')
            per[s][a1] = {'kind': 'f', 'f': R.render(t)}
        for a, v in case['extras'].items():
            s, a1 = a.split('!')
            k = {'n': 'n', 's': 'inlineStr', 'b': 'b', 'd': 'date'}[v[0]]
            if v[0] == 'n' and isinstance(v[1], int) and abs(v[1]) > 2**53:
                k = 'n'
            per[s][a1] = {'kind': k, 'v': v[1]}
        for a, f in case['errs'].items():
            s, a1 = a.split('!')
            per[s][a1] = {'kind': 'f', 'f': f[1:]}
        wbn = []
        for n in names:
            if 'addr' in n:
                s, a1 = n['addr'].split('!')
                c, r = R.split_a1(a1)
                wbn.append({'name': n['name'],
                            'ref': '%s!$%s$%d' % (s, c, r)})
            else:
                s, rng = n['range'].split('!')
                a, b = rng.split(':')
                ca, ra = R.split_a1(a)
                cb, rb = R.split_a1(b)
                wbn.append({'name': n['name'], 'ref': '%s!$%s$%d:$%s$%d' % (
                    s, ca, ra, cb, rb)})
        fn = os.path.join(tmpdir(), 'wb%d.xlsx' % os.getpid())
        xlsxmin.write(fn, {'sheets': [{'name': s, 'cells': per[s]}
                                      for s in model['sheets']],
                           'names': wbn})
        try:
            m = xl.ModelCompiler().read_and_parse_archive(
                fn, build_code=build_code)
        finally:
            os.remove(fn)
    return m, presets


def _whole_beyond_double(v):
    """the digits of a whole number held EXACTLY (an int) beyond 2^53,
    where turning it into a float changes its value; None otherwise"""
    v = getattr(v, 'value', v)
    if isinstance(v, bool):
        return None
    if hasattr(v, 'item') and not isinstance(v, (int, float)):
        try:
            v = v.item()
        except Exception:  # noqa: BLE001
            return None
    if isinstance(v, int) and abs(v) > 2 ** 53 and float(v) != v:
        return str(v)
    return None


def describe(m):
    """plain-data picture of a model through its documented fields."""
    cells = {}
    for a, c in m.cells.items():
        cells[a] = [norm(c.value),
                    c.formula.formula if c.formula is not None else None,
                    _whole_beyond_double(c.value)]
    names = {}
    for n, dfn in m.defined_names.items():
        cls = type(dfn).__name__
        if cls == 'XLCell':
            names[n] = ['cell', dfn.address]
        elif cls == 'XLRange':
            names[n] = ['range', dfn.cells]
        else:
            names[n] = [cls]
    ranges = {k: r.cells for k, r in m.ranges.items()}
    return {'cells': cells, 'formulae': sorted(m.formulae), 'names': names,
            'ranges': ranges}


def diff(a, b):
    out = []
    for part in ('cells', 'formulae', 'names', 'ranges'):
        x, y = a[part], b[part]
        if x == y:
            continue
        if isinstance(x, dict):
            keys = sorted(set(x) | set(y))
            bad = [k for k in keys if not _eq(x.get(k), y.get(k))]
            if bad:
                out.append([part, bad[:4], [x.get(bad[0]), y.get(bad[0])]])
        else:
            out.append([part, 'differs'])
    return out


def _eq(p, q):
    if p == q:
        return True
    if isinstance(p, list) and isinstance(q, list) and len(p) == len(q) == 2 \
            and isinstance(p[0], (list, tuple)):
        return close(tuple(p[0]), tuple(q[0]), rel=0) and p[1] == q[1]
    return False


def judge(case):
    res = Result()
    xl = lib.lib()
    model = case['model']
    ext = case['ext']
    try:
        m, presets = _compile(case, build_code=not case['precompile'])
        ev = xl.Evaluator(m)
        for a, v in presets.items():
            ev.set_cell_value(a, v)
        if not case['precompile']:
            for op in case['history']:
                if op[0] == 'eval':
                    try:
                        ev.evaluate(op[1])
                    except Exception:  # noqa: BLE001
                        pass
                elif op[0] == 'persist':
                    early = os.path.join(tmpdir(), 'early%d%s' % (
                        os.getpid(), op[1]))
                    try:
                        m.persist_to_json_file(early)
                    finally:
                        if os.path.exists(early):
                            os.remove(early)
                else:
                    ev.set_cell_value(op[1], op[2])
    except Exception as err:  # noqa: BLE001
        t = exc_tag(err)
        res.fail('setup-exception:%s:%s' % (t[1], t[2]), 'model', t)
        return res
    when = ('before-compile' if case['precompile'] else
            'after-history' if case['history'] else 'after-compile')
    evaluated = any(op[0] == 'eval' for op in case['history'])
    res.labels = (when, ext, 'names' if case['names'] else 'no-names',
                  'evaluated' if evaluated else 'not-evaluated')
    res.nontrivial = bool(case['history']) or (bool(m.ranges)
                                               and bool(case['names']))
    fn = os.path.join(tmpdir(), 'm%d%s' % (os.getpid(), ext))
    fn2 = fn + '.again' + ext
    try:
        try:
            m.persist_to_json_file(fn)
        except Exception as err:  # noqa: BLE001
            t = exc_tag(err)
            res.fail('persist-exception:%s:%s:%s' % (
                t[1], t[2], 'evaluated' if evaluated else when),
                'file written', t)
            return res
        raw = open(fn, 'rb').read()
        gz = ext.lower() in ('.gz', '.gzip') or ext.lower().endswith('.gz')
        if gz:
            if raw[:2] != b'\x1f\x8b':
                res.fail('format:not-gzip:%s' % ext, 'gzip magic',
                         repr(raw[:8]))
                return res
            try:
                json.loads(gzip.decompress(raw).decode())
            except Exception as err:  # noqa: BLE001
                res.fail('format:gzip-not-json', 'JSON', repr(err)[:100])
                return res
        else:
            try:
                json.loads(raw.decode())
            except Exception as err:  # noqa: BLE001
                res.fail('format:not-json-text:%s' % ext, 'JSON text',
                         repr(raw[:20]))
                return res
        try:
            m2 = xl.Model()
            if case.get('dirty'):
                # the Model object already holds ANOTHER model (restored from
                # another file a moment ago): what was in it must be gone
                other = os.path.join(tmpdir(), 'other%d.json' % os.getpid())
                om = xl.ModelCompiler().read_and_parse_dict({
                    'Sheet1!A4': 7, 'Sheet1!Q1': 5, 'Sheet1!Q2': 6,
                    'Sheet1!Q3': '=SUM(Q1:Q2)+A4', 'Other!A1': 'left over'})
                om.persist_to_json_file(other)
                m2.construct_from_json_file(other, build_code=True)
                os.remove(other)
                res.labels += ('restore-into-used-model',)
            m2.construct_from_json_file(fn, build_code=True)
        except Exception as err:  # noqa: BLE001
            t = exc_tag(err)
            res.fail('restore-exception:%s:%s:%s' % (
                t[1], t[2], 'evaluated' if evaluated else when), 'model', t)
            return res
        d1, d2 = describe(m), describe(m2)
        df = diff(d1, d2)
        if df:
            res.fail('restored-differs:%s:%s' % (
                df[0][0], 'evaluated' if evaluated else when), 'equal', df)
            return res
        # evaluate every formula cell in both
        if case['precompile']:
            m.build_code()
        e1, e2 = xl.Evaluator(m), xl.Evaluator(m2)
        for a in sorted(m.formulae):
            if a not in m.cells:
                continue
            try:
                o1 = norm(e1.evaluate(a))
            except Exception as err:  # noqa: BLE001
                o1 = root_exc(err)
            try:
                o2 = norm(e2.evaluate(a))
            except Exception as err:  # noqa: BLE001
                o2 = root_exc(err)
            if not close(o1, o2, rel=0):
                res.fail('restored-evaluates-differently:%s' % when, o1, o2,
                         a)
                return res
        # the restored model keeps working like the original: the same
        # input changes applied to both give the same values
        for a, v in case.get('post') or []:
            e1.set_cell_value(a, v)
            e2.set_cell_value(a, v)
        if case.get('post'):
            for a in sorted(m.formulae):
                if a not in m.cells:
                    continue
                try:
                    o1 = norm(e1.evaluate(a))
                except Exception as err:  # noqa: BLE001
                    o1 = root_exc(err)
                try:
                    o2 = norm(e2.evaluate(a))
                except Exception as err:  # noqa: BLE001
                    o2 = root_exc(err)
                if not close(o1, o2, rel=0):
                    res.fail('restored-diverges-after-input-change', o1, o2,
                             [a, case['post']])
                    return res
        # idempotence of the round trip
        try:
            m2.persist_to_json_file(fn2)
            m3 = xl.Model()
            m3.construct_from_json_file(fn2, build_code=True)
            df = diff(describe(m2), describe(m3))
            if df:
                res.fail('second-round-trip-differs:%s' % df[0][0], 'equal',
                         df)
        except Exception as err:  # noqa: BLE001
            t = exc_tag(err)
            res.fail('second-round-trip-exception:%s:%s' % (t[1], t[2]),
                     'model', t)
    finally:
        for f in (fn, fn2):
            try:
                os.remove(f)
            except OSError:
                pass
    return res
