"""C17 - text functions agree with 1-based string reference semantics."""
from vf.core.runner import Result
from vf.core import lib
from vf.gen.decode import decoded
from vf.ref import text as RT

ID = 'C17'
LEVEL = 'exploration'
RULE = ('& chains of 2..300 operands (literals and cells).  '
        'sampled (Hypothesis-decoded): texts of length 0..12 (thorough 30) '
        'over a collision-rich alphabet (a b A blank " \' , ( e-acute '
        'U-umlaut digits), positions and counts from -2 to len+3, replacement '
        'and search texts from the same alphabet, integers and booleans as '
        'text arguments; each through a direct call of xl.FUNCTIONS[f] and '
        'through a formula with string literals (doubled quotes); plus the '
        'algebraic identities of the statement evaluated as formulas on the '
        "library's own outputs; enumerated: all texts of length<=3 over "
        '{a, A, blank} x all positions/counts -1..4 for LEFT RIGHT MID FIND '
        'REPLACE.  Non-trivial = text with a repeated substring, or count in '
        '{0, len, >len}, or position at an end, or an error expectation; '
        'distinct by (function, arguments, mode).')
ASSUMPTIONS = [
    "'an error value' = any ExcelError instance",
    'booleans as text only where the result does not depend on the casing of '
    'their text form (LEN, UPPER, LOWER, LEFT(x,1))',
    'UPPER on an alphabet where Python case mapping is one-to-one; LOWER '
    'also over letters whose lower case differs from their case folding',
]

ALPHA = ['a', 'b', 'A', ' ', 'a', 'b', '"', "'", ',', '(', u'é', u'Ü', '1',
         ' ', 'B']


# white space other than the blank (TRIM and friends only know U+0020)
WHITE = ['\t', u'\xa0', '\n', u'\u3000', ' ', u'\u2003']
# texts that SPELL another kind of value (boolean, number, error, blank)
SPECIAL = ['false', 'FALSE', 'False', 'true', 'TRUE', '0', '1', '-1', '00',
           '0.0', '#N/A', '#VALUE!', '1e3', '1E3', 'null', 'None', 'nan',
           'inf', ' ', 'falsehood', 'a false b', '=1', '+1', "'a"]


def _text(d, maxlen):
    if d.chance(1, 12):
        return d.choice(SPECIAL)
    n = d.pick(maxlen + 1)
    alpha = ALPHA + WHITE if d.chance(1, 6) else ALPHA
    return ''.join(d.choice(alpha) for _ in range(n))


def _build(d, maxlen):
    fn = d.choice(['LEFT', 'RIGHT', 'MID', 'FIND', 'REPLACE', 'LEN', 'TRIM',
                   'UPPER', 'LOWER', 'EXACT', 'CONCAT', 'CONCATENATE', 'AMP',
                   'ID'])
    mode = 'formula' if d.pick(3) == 0 else 'call'
    s = _text(d, maxlen)
    if d.chance(1, 5):
        # repeated substring by construction
        part = _text(d, 3) or 'ab'
        s = part + _text(d, 2) + part
    if d.chance(1, 25):
        # long texts: around 255 characters and around the 32767 cell limit
        n = d.choice([254, 255, 256, 300, 1000, 32766, 32767])
        s = (s or 'ab') * (n // max(1, len(s or 'ab')) + 1)
        s = s[:n]
    L = len(s)

    def pos():
        if L > 100 and d.pick(2):
            return d.choice([L - 1, L, L + 1, 255, 256, L // 2])
        p_ = d.int(-2, L + 3)
        if d.chance(1, 6):
            # a FRACTIONAL position / count: truncated toward zero first
            # (0.5 is 0, 1.9 is 1)
            f_ = d.choice([0.25, 0.5, 0.9])
            return p_ + f_ if p_ >= 0 else p_ - f_
        return p_
    if d.chance(1, 12):
        s = d.choice([12345, 7, 100, 1212, -45, 7.0, 2.5, -0.5, 100.0,
                      1212.0, 1234567.0, 1000000.0, 123456789012.0, -0.0,
                      100000.0, 999999.0, 12345678, 0.001, 1234.5,
                      0.3333333333333333, 0.30000000000000004,
                      0.1234567890123456])
        L = len(str(s))
    if fn == 'LEFT' or fn == 'RIGHT':
        args = [s] if d.chance(1, 6) else [s, pos()]
    elif fn == 'MID':
        args = [s, pos(), pos()]
    elif fn == 'FIND':
        t = _text(d, 2)
        if d.chance(1, 2) and isinstance(s, str) and L:
            i = d.pick(L)
            t = s[i:i + 1 + d.pick(2)]
        if d.chance(1, 3):
            # self-overlapping occurrences
            unit = d.choice(['a', 'ab', 'aba', 'aa', 'a a'])
            s = unit * d.int(2, 4) + _text(d, 2)
            L = len(s)
            t = (unit * 2)[:d.int(2, len(unit) + 1)]
        args = [t, s] if d.chance(1, 4) else [t, s, pos()]
    elif fn == 'REPLACE':
        args = [s, pos(), pos(), _text(d, 3)]
    elif fn in ('LEN', 'TRIM', 'UPPER', 'LOWER'):
        args = [s]
        if d.chance(1, 10) and fn != 'TRIM':
            args = [bool(d.pick(2))]
        if fn == 'LOWER' and d.chance(1, 4):
            # letters whose lower case is NOT their case folding (LOWER
            # leaves them alone; str.casefold would rewrite them)
            args = [''.join(d.choice(['Stra', u'\xdf', 'e', u'\u03c2',
                                      u'\u017f', u'\xb5', 'A', u'\xc9',
                                      u'\ufb01', 'B'])
                            for _ in range(d.int(1, 6)))]
        if fn == 'TRIM' and d.chance(1, 2):
            args = [' ' * d.pick(3) + 'a' + ' ' * d.pick(4) + 'b c' +
                    ' ' * d.pick(3)]
            if d.chance(1, 3):
                w = d.choice(WHITE)
                args = [d.choice([w, ' ' + w, '']) + 'a' + d.choice(
                    [w, w + ' ', ' ' + w + ' ', '  ']) + 'b' + d.choice(
                        [w, w + ' ', ''])]
    elif fn == 'EXACT':
        t = _text(d, maxlen)
        if d.chance(1, 2) and isinstance(s, str):
            t = s.swapcase() if d.chance(1, 2) else s
        args = [s, t]
    elif fn in ('CONCAT', 'CONCATENATE', 'AMP'):
        args = [s] + [_text(d, 4) if d.pick(4) else d.choice(
                          [d.int(0, 99), 7.0, 2.5, 30.0, 1234567.0, -0.0,
                           1e6,
                           # every digit of a long fraction belongs to the
                           # text form
                           0.3333333333333333, 0.30000000000000004,
                           0.1234567890123456, 1.2e-16, 2.0000000000000004])
                      if d.pick(3) else bool(d.pick(2))
                      for _ in range(1 + d.pick(3))]
        if d.chance(1, 6):
            args[0] = bool(d.pick(2))
        if fn == 'AMP':
            mode = 'formula'
            if d.chance(1, 8):
                # a LONG chain (tiled from the drawn operands): a&b&c&...
                # stays a chain of two-operand joins whatever its length
                n = d.choice([17, 64, 253, 254, 255, 256, 300])
                args = [args[i % len(args)] if not isinstance(
                    args[i % len(args)], str) else args[i % len(args)][:3]
                    for i in range(n)]
    else:
        fn = 'ID:' + d.choice(['left-right', 'mid-left', 'len-concat',
                               'replace', 'find-min'])
        s = s if isinstance(s, str) else str(s)
        if fn != 'ID:find-min' and len(s) < 1000 and d.chance(1, 4):
            # characters beyond the Basic Multilingual Plane (one code point,
            # two UTF-16 units): whatever unit the functions count in, they
            # must count in the SAME one - judged through the identities only
            i_ = d.pick(len(s) + 1)
            s = s[:i_] + d.choice([u'\U0001F600', u'\U00020000',
                                   u'\U0001F600\U0001F600']) + s[i_:]
        args = [s, d.int(0, len(s) + 1), d.int(0, len(s) + 1), _text(d, 3)]
        mode = 'formula'
    if mode == 'formula' and not fn.startswith('ID:') and d.chance(1, 3):
        # the arguments come from CELLS instead of literals
        mode = 'cells'
    return {'fn': fn, 'args': args, 'mode': mode}


def strategy(tier):
    ml = 12 if tier == 'quick' else 30
    return decoded(lambda d: _build(d, ml), min_size=12, max_size=80)


def budget(tier):
    return 60000 if tier == 'quick' else 3000000


def enumerate_cases(tier, shard=0, nshards=1):
    import itertools
    texts = ['']
    for n in (1, 2, 3):
        texts += [''.join(t) for t in itertools.product('aA ', repeat=n)]
    rng = range(-1, 5)
    i = 0
    for s in ['abcdef', 'a']:
        i += 1
        if i % nshards != shard:
            continue
        for p_ in (-1.5, -0.5, 0.25, 0.5, 0.9, 1.5, 1.9, 2.5, 6.5, 7.2):
            for k_ in (2, 0.5, 1.9):
                yield {'fn': 'MID', 'args': [s, p_, k_], 'mode': 'call'}
                yield {'fn': 'REPLACE', 'args': [s, p_, k_, 'X'],
                       'mode': 'formula'}
            yield {'fn': 'LEFT', 'args': [s, p_], 'mode': 'call'}
            yield {'fn': 'RIGHT', 'args': [s, p_], 'mode': 'formula'}
            yield {'fn': 'FIND', 'args': ['a', s, p_], 'mode': 'call'}
    for s in texts:
        i += 1
        if i % nshards != shard:
            continue
        for n in rng:
            yield {'fn': 'LEFT', 'args': [s, n], 'mode': 'call'}
            yield {'fn': 'RIGHT', 'args': [s, n], 'mode': 'call'}
            for k in rng:
                yield {'fn': 'MID', 'args': [s, n, k], 'mode': 'call'}
                yield {'fn': 'REPLACE', 'args': [s, n, k, 'aX'],
                       'mode': 'call'}
            for t in ('a', 'A', ' a', ''):
                yield {'fn': 'FIND', 'args': [t, s, n], 'mode': 'call'}
    # long chains of & (operands as literals and in cells)
    for n in (2, 3, 17, 64, 253, 254, 255, 256, 300):
        i += 1
        if i % nshards != shard:
            continue
        pat = ['ab', 7, 'C', 2.5, '', 'x y', True]
        for mode in ('formula', 'cells'):
            yield {'fn': 'AMP', 'mode': mode,
                   'args': [pat[j % len(pat)] for j in range(n)]}
    # self-overlapping search texts: every text of length <= 6 over {a, b}
    for n in range(1, 7):
        for tup in itertools.product('ab', repeat=n):
            i += 1
            if i % nshards != shard:
                continue
            s = ''.join(tup)
            for t in ('aa', 'aba', 'ab', 'abab', 'bb', 'a'):
                for p in range(1, n + 2):
                    yield {'fn': 'FIND', 'args': [t, s, p], 'mode': 'call'}


def lit(x):
    if isinstance(x, bool):
        return 'TRUE' if x else 'FALSE'
    if isinstance(x, str):
        return '"' + x.replace('"', '""') + '"'
    return str(x) if x >= 0 else '-' + str(-x)


def _tag(v):
    if v == RT.ERR:
        return ('E', '*')
    if isinstance(v, bool):
        return ('B', v)
    if isinstance(v, int):
        return ('N', float(v))
    return ('T', v)


def _same(exp, obs):
    if exp == ('E', '*'):
        return obs[0] == 'E'
    return exp == obs


def _same_cat(exp, obs, args):
    """concatenation: the letter case of a boolean's text form is not
    pinned down by the statement ('TRUE' in Excel, 'True' in this library,
    where existing tests fix str(Boolean(True)) == 'True'): both pass."""
    if _same(exp, obs):
        return True
    if any(isinstance(a, bool) for a in args):
        alt = ''.join(str(a) if isinstance(a, bool) else RT.as_text(a)
                      for a in args)
        return obs == ('T', alt)
    return False


def _identity(name, s, n, k, t):
    """(formula, expected native)"""
    S = lit(s)
    if name == 'left-right':
        n = min(n, len(s))
        return ('=LEFT(%s,%d)&RIGHT(%s,LEN(%s)-%d)' % (S, n, S, S, n), s)
    if name == 'mid-left':
        return ('=EXACT(MID(%s,1,%d),LEFT(%s,%d))' % (S, n, S, n), True)
    if name == 'len-concat':
        T = lit(t)
        return ('=LEN(%s&%s)=LEN(%s)+LEN(%s)' % (S, T, S, T), True)
    if name == 'replace':
        p = max(1, n)
        T = lit(t)
        return ('=EXACT(REPLACE(%s,%d,%d,%s),LEFT(%s,%d)&%s&MID(%s,%d,LEN(%s)'
                '))' % (S, p, k, T, S, p - 1, T, S, p + k, S), True)
    # find-min: FIND(t,s,p) is the first position >= p at which t occurs
    p = max(1, n)
    sub = s[k:k + 1] if k < len(s) else 'a'
    exp = RT.FIND(sub, s, p)
    return ('=FIND(%s,%s,%d)' % (lit(sub), S, p), exp)


def judge(case):
    res = Result()
    fn, args, mode = case['fn'], case['args'], case['mode']
    if fn.startswith('ID:'):
        f, exp = _identity(fn[3:], *args)
        obs, stage = lib.eval_formula(f)
        res.nontrivial = True
        res.labels = (fn,)
        if not _same(_tag(exp), obs):
            res.fail('identity:%s' % fn[3:], _tag(exp), obs, f)
        return res
    cells, presets, spell = None, None, lit
    if mode == 'cells':
        # argument i lives in cell A(i+1); texts starting with '=' / empty
        # texts / booleans cannot be written into the dict: set_cell_value
        cells, presets = {}, {}
        for i, a in enumerate(args):
            ad = 'Sheet1!A%d' % (i + 1)
            if isinstance(a, bool) or a == '' or (
                    isinstance(a, str) and a[:1] == '='):
                cells[ad] = 987654
                presets[ad] = a
            else:
                cells[ad] = a
        names = iter('A%d' % (i + 1) for i in range(len(args)))

        def spell(a, names=names):
            return next(names)
    if fn == 'AMP':
        exp = RT.CONCAT(*args)
        f = '=' + '&'.join(spell(a) for a in args)
        obs, stage = lib.eval_formula(f, cells, addr='Sheet1!Z1',
                                      presets=presets)
        res.nontrivial = len(args) > 2
        res.labels = ('AMP', 'chain>=255' if len(args) >= 255 else
                      'chain>16' if len(args) > 16 else 'chain<=16')
        if not _same_cat(_tag(exp), obs, args):
            res.fail('value:&', _tag(exp), obs, f)
        return res
    posidx = {'LEFT': (1,), 'RIGHT': (1,), 'MID': (1, 2), 'FIND': (2,),
              'REPLACE': (1, 2)}.get(fn, ())
    refargs = [int(a) if i in posidx and isinstance(a, float) else a
               for i, a in enumerate(args)]
    exp = _tag(RT.FUNCS[fn](*refargs))
    if mode == 'call':
        obs = lib.call_fn(fn, *args)
        note = None
    else:
        note = '=%s(%s)' % (fn, ','.join(spell(a) for a in args))
        obs, stage = lib.eval_formula(note, cells, addr='Sheet1!Z1',
                                      presets=presets)
    s = args[1] if fn == 'FIND' else args[0]
    st_ = RT.as_text(s)
    ints = [a for a in args[1:] if isinstance(a, int)
            and not isinstance(a, bool)]
    rep = any(st_.count(st_[i:i + 2]) > 1 for i in range(len(st_) - 1))
    edge = any(a in (0, 1, len(st_), len(st_) + 1) or a > len(st_)
               for a in ints)
    res.nontrivial = rep or edge or exp[0] == 'E'
    res.labels = (fn, mode, 'exp:' + exp[0])
    if not (_same_cat(exp, obs, args) if fn in ('CONCAT', 'CONCATENATE')
            else _same(exp, obs)):
        if obs[0] == 'X':
            b = 'exception:%s:%s:%s' % (fn, obs[1], _argkinds(args))
        elif exp[0] == 'E':
            b = 'missing-error:%s:%s' % (fn, _why(fn, args))
        else:
            b = 'value:%s:%s' % (fn, _why(fn, args))
        res.fail(b, exp, obs, note or [fn] + args)
    return res


def _argkinds(args):
    return ''.join('b' if isinstance(a, bool) else 'i' if isinstance(a, int)
                   else 's' for a in args)


def _why(fn, args):
    """coarse input class for bucketing"""
    ints = [a for a in args[1:] if isinstance(a, int)
            and not isinstance(a, bool)]
    if any(a < 0 for a in ints):
        return 'negative'
    if any(a == 0 for a in ints):
        return 'zero'
    if not isinstance(args[0], str):
        return 'nontext-arg'
    return 'general'
