"""C02 - every well-formed formula parses to the tree its text denotes."""
import importlib

from vf.core.runner import Result
from vf.core import lib
from vf.core.norm import exc_tag
from vf.gen.decode import decoded
from vf.ref import refeval as R

ID = 'C02'
LEVEL = 'exploration'
RULE = ('generated from a grammar of the stored form of Excel formulas '
        '(Hypothesis-decoded, text produced by construction from the AST): '
        'numbers (plain, decimal, percent, scientific), "strings" over the '
        'full printable alphabet incl. the tokenizer\'s delimiters " \' ! # % '
        '( ) , : ; [ ] { } and the substrings :OFFSET :INDEX, TRUE/FALSE, '
        'the seven error literals, references with every $ combination, '
        'unqualified / Sheet2!A1 / \'My Sheet\'!A1 / \'It\'\'s\'!$B$2, ranges '
        'likewise, calls NAME(args) with registered and arbitrary names, '
        '_xlfn. and @ prefixes, 0..8 arguments, nesting <= 5, binary/unary '
        'operators, postfix % on references and parentheses; renderings vary '
        'leading =, blanks and newlines between tokens (leading and trailing '
        'too), redundant parentheses, optional quoting of sheet names; plus '
        'an enumerated table of single-feature formulas (each delimiter alone '
        'in a string, each error literal in each position, each whitespace '
        'position).  Oracle: round trip - FormulaParser().parse(text, {}) '
        'walked through args/left/right/tvalue/tsubtype and canonicalised '
        'must equal the canonical form of the generated tree; '
        'XLFormula(text, sheet) must construct.  Non-trivial = >= 3 nodes and '
        'one of: call with >= 2 arguments, nesting >= 2, string with a '
        'delimiter, quoted sheet, $ reference, error literal, non-minimal '
        'whitespace; distinct by text.')
ASSUMPTIONS = [
    'intersection/union operators, array literals, structured references, '
    'A1:OFFSET(...) pointers and whole-row/column references are not '
    'generated (not in the statement)',
    'function names are compared upper-cased with a leading @ removed',
]

ERRORS = ['#NULL!', '#DIV/0!', '#VALUE!', '#REF!', '#NAME?', '#NUM!', '#N/A']
FUNCS = ['SUM', 'IF', 'MAX', 'ROUND', 'CONCATENATE', 'PI', 'sum', 'MyFunc',
         'F', 'VLOOKUP', 'LEFT', 'X2', '_xlfn.CONCAT', '@SUM', 'AND',
         '_xlfn.STDEV.S', 'NOW', 'TODAY', 'Do_It', '@IF', 'ISNA', 'NA',
         # names the tokenizer and parser treat specially elsewhere (range
         # pointers A1:OFFSET(...), A1:INDEX(...); booleans; errors)
         'INDEX', 'OFFSET', 'MYINDEX', 'X.OFFSET', 'TRUE', 'FALSE', 'N',
         'T', 'LOG10', 'A1B', 'R1C1', 'E']
SHEETS = ['Sheet2', 'Data_1', 'My Sheet', "It's", 'Q-1', '2024', 'A B C',
          'Sheet1', u'Blätter', 'a.b']
DELIMS = ['"', "'", '!', '#', '%', '(', ')', ',', ':', ';', '[', ']', '{',
          '}', ' ', '=', '+', '-', '*', '/', '^', '&', '<', '>', '@', '$',
          '.', '\n', 'a', 'Z', '0', '9', u'é', '_', '?', '\\', '~', '|']
SPECIAL_STR = [':OFFSET', ':INDEX', ':', ': ', ':A1', 'A1:OFFSET', 'x:INDEX(',
               '#N/A', '#REF!', "'", '""', 'TRUE', '1E+5', 'SUM(', '), (',
               '{1,2;3,4}', '[Book1]Sheet1!A1', '=1+2', '', ' ', '%', '5%']
OPS = R.BINOPS


def needs_quote(name):
    return not (name.replace('_', 'a').replace('.', 'a').isalnum()
                and not name[0].isdigit()) or not name.isascii()


def _ref(d, allow_range=True):
    def coord():
        col = d.choice(['A', 'B', 'Z', 'AA', 'AZ', 'XFD', 'C', 'IV', 'BC',
                        'ZZ', 'AAA', 'ABC', 'E', 'EE', 'XEE'])
        row = d.choice([1, 2, 9, 10, 99, 100, 1048576, 7, 65536, 1000000,
                        12345])
        s = ('$' if d.chance(1, 4) else '') + col + \
            ('$' if d.chance(1, 4) else '') + str(row)
        return s
    body = coord()
    kind = 'ref'
    if allow_range and d.chance(1, 4):
        body = body + ':' + coord()
        kind = 'range'
    k = d.pick(5)
    if k >= 3:
        sh = d.choice(SHEETS)
        if needs_quote(sh) or d.chance(1, 5):
            q = "'" + sh.replace("'", "''") + "'"
        else:
            q = sh
        return [kind, q + '!' + body]
    return [kind, body]


def _string(d):
    k = d.pick(6)
    if k == 0:
        return d.choice(SPECIAL_STR)
    if k == 1:
        return d.choice(['abc', 'hello world', 'x', 'Total', 'n/a'])
    if d.chance(1, 30):
        # long literals
        return (d.choice(DELIMS) + 'ab"c') * d.choice([64, 100, 300, 9000])
    n = d.pick(7)
    return ''.join(d.choice(DELIMS) for _ in range(n))


def _leaf(d):
    k = d.pick(12)
    if k < 3:
        return _ref(d)
    if k < 5:
        return ['num', d.choice(['1', '2', '10', '0', '3.5', '0.25', '100',
                                 '7'])]
    if k == 5:
        return ['num', d.choice(['5%', '12.5%', '1E3', '2.5E-2', '1e+10',
                                 '10E+1', '100%', '1E+100', '1E100',
                                 '2.5E-300', '9.99999999999999E+307',
                                 '1e-100', '123456789012345', '0.000001',
                                 '1E+007', '12345.678901234', '.5', '5.',
                                 '007', '.5e1', '5.E+1', '00.50', '.25%',
                                 '1234567890123456789'])]
    if k < 9:
        return ['str', _string(d)]
    if k == 9:
        return ['bool', bool(d.pick(2))]
    if k == 10:
        return ['err', d.choice(ERRORS)]
    return ['call', d.choice(['PI', 'NOW', 'TRUE', 'NA', 'F']), []]


def _tree(d, depth, top=False):
    if depth <= 0 or (d.left() <= 0 and not top):
        return _leaf(d)
    k = d.pick(12)
    if top and k < 2:
        k += 2
    if k < 2:
        return _leaf(d)
    if k < 6:
        n = d.choice([1, 2, 2, 3, 3, 4, 0, 5, 8, 9, 10, 11, 30])
        if n > 8:
            return ['call', d.choice(FUNCS),
                    [_leaf(d) for _ in range(n)]]
        return ['call', d.choice(FUNCS),
                [_tree(d, depth - 1) for _ in range(n)]]
    if k < 9:
        return ['op', d.choice(OPS), _tree(d, depth - 1),
                _tree(d, depth - 1)]
    if k == 9:
        return ['neg', _tree(d, depth - 1)]
    if k == 10:
        return [d.choice(['par', 'par', 'pos']), _tree(d, depth - 1)]
    inner = d.choice([_ref(d, allow_range=False),
                      ['par', _tree(d, depth - 1)]])
    return ['pct', inner]


def _render(tree, w):
    k = tree[0]
    if k == 'pct':
        return _render(tree[1], w) + '%'
    if k == 'par':
        return '(' + w() + _render(tree[1], w) + w() + ')'
    if k in ('neg', 'pos'):
        inner = tree[1]
        s = _render(inner, w)
        if inner[0] in ('op', 'pct'):
            # unary minus binds tighter than %: -A1% denotes (-A1)%
            s = '(' + s + ')'
        return ('-' if k == 'neg' else '+') + w() + s
    if k == 'op':
        p = R.PREC[tree[1]]
        l, r = tree[2], tree[3]
        ls, rs = _render(l, w), _render(r, w)
        if _prec(l) < p:
            ls = '(' + ls + ')'
        if _prec(r) <= p:
            rs = '(' + rs + ')'
        return ls + w() + tree[1] + w() + rs
    if k == 'call':
        if not tree[2]:
            return tree[1] + '(' + ')'
        args = (w() + ',' + w()).join(_render(a, w) for a in tree[2])
        return tree[1] + '(' + w() + args + w() + ')'
    return R.render(tree)


def _prec(t):
    if t[0] == 'pct':
        return 6
    return R.prec(t)


def _build(d, depth):
    style = d.pick(6)
    mask = d.pick(65536)
    lead = d.choice(['', '', ' ', '\n', '  '])
    trail = d.choice(['', '', ' ', '\n', '  '])
    eq = d.pick(8) != 0
    tree = _tree(d, depth, top=True)
    if style < 2:
        def w():
            return ''
        lead = trail = ''
    else:
        state = [0]

        def w():
            bit = (mask >> (state[0] % 16)) & 1
            state[0] += 1
            if not bit:
                return ''
            return {2: ' ', 3: ' ', 4: '  ', 5: '\n'}[style] \
                if state[0] % 3 else ' '
    body = _render(tree, w)
    text = ('=' if eq else '') + lead + body + trail
    if not eq and lead:
        text = lead + body + trail
    return {'tree': tree, 'text': text}


def strategy(tier):
    depth = 4 if tier == 'quick' else 5
    return decoded(lambda d: _build(d, depth), min_size=24,
                   max_size=300 if tier == 'quick' else 500)


def budget(tier):
    return 60000 if tier == 'quick' else 3000000


def enumerate_cases(tier, shard=0, nshards=1):
    out = []
    for ch in DELIMS:
        for s in (ch, 'a' + ch, ch + 'b', 'a' + ch + 'b', ch + ch):
            t = ['op', '&', ['ref', 'A1'], ['str', s]]
            out.append((t, '=' + R.render(t)))
            t2 = ['call', 'LEN', [['str', s]]]
            out.append((t2, '=' + R.render(t2)))
            t3 = ['call', 'IF', [['ref', 'A1'], ['str', s], ['num', '2']]]
            out.append((t3, '=' + R.render(t3)))
    for s in SPECIAL_STR:
        for t in (['str', s], ['op', '&', ['str', s], ['ref', 'B1']],
                  ['call', 'CONCATENATE', [['ref', 'A1'], ['str', s]]]):
            out.append((t, '=' + R.render(t)))
    for e in ERRORS:
        for t in (['err', e], ['op', '+', ['err', e], ['num', '1']],
                  ['op', '=', ['ref', 'A1'], ['err', e]],
                  ['call', 'ISERROR', [['err', e]]],
                  ['call', 'IF', [['ref', 'A1'], ['err', e], ['err', e]]],
                  ['neg', ['err', e]]):
            out.append((t, '=' + R.render(t)))
    base = ['call', 'SUM', [['ref', 'A1'], ['op', '*', ['ref', 'B1'],
                                             ['num', '2']]]]
    toks = ['SUM(', 'A1', ',', 'B1', '*', '2', ')']
    for ws in (' ', '\n', '  '):
        for pos in range(len(toks) + 1):
            if pos == 1:
                pass
            txt = ''.join(toks[:pos]) + ws + ''.join(toks[pos:])
            out.append((base, '=' + txt))
            out.append((base, txt))
    for sh in SHEETS:
        q = "'" + sh.replace("'", "''") + "'"
        for body in ('A1', '$B$2', 'A1:C3', '$A1:B$2'):
            for name in ([q] if needs_quote(sh) else [q, sh]):
                t = ['op', '+', [('range' if ':' in body else 'ref'),
                                 name + '!' + body], ['num', '1']]
                out.append((t, '=' + R.render(t)))
    # many arguments, deep nesting
    for n in (9, 10, 11, 26, 30, 100, 254, 255, 256):
        t = ['call', 'F', [['num', str(i + 1)] for i in range(n)]]
        out.append((t, '=' + R.render(t)))
    for depth in (6, 10, 20, 40):
        t = ['ref', 'A1']
        for i in range(depth):
            t = ['call', 'F%d' % (i % 3), [t, ['num', str(i)]]]
        out.append((t, '=' + R.render(t)))
        t = ['num', '1']
        for i in range(depth):
            t = ['par', ['op', '+', t, ['num', str(i)]]]
        out.append((t, '=' + R.render(t)))
    for n in range(0, 9):
        t = ['call', 'F', [['num', str(i + 1)] for i in range(n)]]
        out.append((t, '=' + R.render(t)))
        t = ['call', 'G', [['call', 'F', [['num', str(i + 1)]
                                         for i in range(n)]], ['ref', 'A1']]]
        out.append((t, '=' + R.render(t)))
    # defined names handed to the parser: a name becomes the reference it
    # is bound to, a STRING LITERAL spelled like the name stays a string
    names = {'Rate': 'Sheet9!Q7', 'Block': 'Sheet9!B2:C3', 'x': 'Data!A1'}
    Q7, BL, DX = (['ref', 'Sheet9!Q7'], ['range', 'Sheet9!B2:C3'],
                  ['ref', 'Data!A1'])
    for t, txt in [
            (['call', 'IF', [['op', '=', ['ref', 'A1'], ['str', 'Rate']], Q7,
                             ['num', '0']]], '=IF(A1="Rate",Rate,0)'),
            (['op', '&', ['op', '&', ['str', 'Rate'], ['str', ':']], Q7],
             '="Rate"&":"&Rate'),
            (['op', '*', Q7, ['num', '2']], '=Rate*2'),
            (['op', '+', ['call', 'SUM', [BL]], ['call', 'LEN', [
                ['str', 'Block']]]], '=SUM(Block)+LEN("Block")'),
            (['op', '&', ['str', 'x'], DX], '="x"&x'),
            (['call', 'IF', [['op', '=', Q7, ['num', '1']], ['str', 'Rate'],
                             ['str', 'rate']]], '=IF(Rate=1,"Rate","rate")'),
            (['op', '+', Q7, ['call', 'SUM', [BL, DX, ['str', 'Block']]]],
             '=Rate+SUM(Block,x,"Block")')]:
        if shard == 0:
            yield {'tree': t, 'text': txt, 'names': names}
    # small scope, complete: EVERY sequence of 2 and of 3 binary operators
    # between plain operands, without parentheses (1 872 formulas whose token
    # kinds coincide while their trees differ), with two operand layouts;
    # each shard parses all of them, in an order of its own
    flat = list(_flat_sequences())
    k = (7 * shard + 3) % max(1, len(flat))
    for t, txt in flat[k:] + flat[:k]:
        yield {'tree': t, 'text': txt}
    for i, (t, txt) in enumerate(out):
        if i % nshards == shard:
            yield {'tree': t, 'text': txt}


def _climb(operands, ops):
    """tree of  o0 op0 o1 op1 o2 ...  under the reference precedences (all
    operators left-associative)"""
    def parse(pos, minp):
        left = operands[pos]
        while pos < len(ops) and R.PREC[ops[pos]] >= minp:
            op = ops[pos]
            right, npos = parse(pos + 1, R.PREC[op] + 1)
            left = ['op', op, left, right]
            pos = npos
        return left, pos
    return parse(0, 0)[0]


def _flat_sequences():
    import itertools
    syms = sorted(R.PREC)
    layouts = [[['ref', 'A1'], ['ref', 'B1'], ['ref', 'C1'], ['ref', 'D1']],
               [['num', '2'], ['ref', 'B2'], ['num', '3'], ['ref', '$D$2']]]
    for n in (2, 3):
        for ops in itertools.product(syms, repeat=n):
            for lay in (layouts if n == 2 else layouts[:1]):
                t = _climb(lay[:n + 1], list(ops))
                txt = '=' + R.render(t)
                if '(' not in txt:
                    yield t, txt


# ---------------------------------------------------------------- canonical

def canon_ref(text):
    sheet = None
    body = text
    if '!' in text:
        sheet, body = text.rsplit('!', 1)
        if sheet.startswith("'") and sheet.endswith("'") and len(sheet) >= 2:
            sheet = sheet[1:-1].replace("''", "'")
    body = body.replace('$', '').upper()
    return [sheet, body]


def canon(tree):
    k = tree[0]
    if k == 'num':
        return ['num', float(R.literal_value(tree[1]))]
    if k in ('str', 'bool', 'err'):
        return [k, tree[1]]
    if k in ('ref', 'range'):
        return ['ref'] + canon_ref(tree[1])
    if k in ('par', 'pos'):
        return canon(tree[1])
    if k == 'neg':
        return ['neg', canon(tree[1])]
    if k == 'pct':
        return ['pct', canon(tree[1])]
    if k == 'op':
        return ['op', tree[1], canon(tree[2]), canon(tree[3])]
    if k == 'call':
        name = tree[1]
        if name.startswith('@'):
            name = name[1:]
        return ['call', name.upper(), [canon(a) for a in tree[2]]]
    raise ValueError(k)


def walk(node):
    """library AST -> canonical form, through the documented fields."""
    cls = type(node).__name__
    if cls == 'FunctionNode':
        return ['call', str(node.tvalue).upper(),
                [walk(a) for a in node.args]]
    if cls == 'OperatorNode':
        if node.ttype == 'operator-prefix':
            return ['neg' if node.tvalue == '-' else 'prefix' + node.tvalue,
                    walk(node.right)]
        if node.ttype == 'operator-postfix':
            return ['pct', walk(node.left)]
        return ['op', node.tvalue, walk(node.left), walk(node.right)]
    if cls == 'RangeNode':
        return ['ref'] + _lib_ref(str(node.tvalue))
    st_ = node.tsubtype
    if st_ == 'number':
        return ['num', float(node.tvalue)]
    if st_ == 'text':
        return ['str', node.tvalue]
    if st_ == 'logical':
        return ['bool', str(node.tvalue).upper() == 'TRUE']
    if st_ == 'error':
        return ['err', node.tvalue]
    return ['?', cls, st_, repr(node.tvalue)]


def _lib_ref(text):
    sheet = None
    body = text
    if '!' in text:
        sheet, body = text.rsplit('!', 1)
    return [sheet, body.replace('$', '').upper()]


def _features(tree, text):
    f = []
    strs, names, pcts = [], [], []

    def rec(t, depth):
        k = t[0]
        if k == 'str':
            strs.append(t[1])
        elif k == 'pct':
            pcts.append('percent-after-parenthesis' if t[1][0] in (
                'par', 'pct') else 'percent-on-reference')
            rec(t[1], depth)
        elif k in ('par', 'pos', 'neg'):
            rec(t[1], depth)
        elif k == 'op':
            rec(t[2], depth), rec(t[3], depth)
        elif k == 'call':
            names.append(t[1])
            for a in t[2]:
                rec(a, depth + 1)
        elif k == 'err':
            f.append('error-literal')
        elif k in ('ref', 'range'):
            if "'" in t[1]:
                f.append('quoted-sheet')
            if '$' in t[1]:
                f.append('dollar-ref')
    rec(tree, 0)
    pre = sorted(set(pcts))
    if any(s.startswith(':') for s in strs):
        pre.append('string-starting-with-colon')
    if any(':OFFSET' in s or ':INDEX' in s for s in strs):
        pre.append('string-containing-:OFFSET/:INDEX')
    if any(any(c in s for c in '"\'!#%(),:;[]{}') for s in strs):
        f.append('string-with-delimiter')
    if any(n.startswith('@') for n in names):
        f.append('at-prefix')
    if '\n' in text:
        f.append('newline')
    return pre + f


def _depth(t):
    k = t[0]
    if k in ('par', 'pos', 'neg', 'pct'):
        return _depth(t[1])
    if k == 'op':
        return max(_depth(t[2]), _depth(t[3]))
    if k == 'call':
        return 1 + max([_depth(a) for a in t[2]] + [0])
    return 0


def _count(t):
    k = t[0]
    if k in ('par', 'pos', 'neg', 'pct'):
        return 1 + _count(t[1])
    if k == 'op':
        return 1 + _count(t[2]) + _count(t[3])
    if k == 'call':
        return 1 + sum(_count(a) for a in t[2])
    return 1


_parser = None


def judge(case):
    global _parser
    res = Result()
    tree, text = case['tree'], case['text']
    if _parser is None:
        lib.lib()
        _parser = importlib.import_module('xlcalculator.parser')
    feats = _features(tree, text)
    want = canon(tree)
    calls2 = any(True for _ in [0] if _has_call2(tree))
    res.nontrivial = _count(tree) >= 3 and (
        calls2 or _depth(tree) >= 2 or bool(set(feats) & {
            'string-with-delimiter', 'quoted-sheet', 'dollar-ref',
            'error-literal', 'string-starting-with-colon',
            'string-containing-:OFFSET/:INDEX', 'percent-on-reference',
            'percent-after-parenthesis'})
        or ' ' in text or '\n' in text)
    res.labels = tuple(feats[:3]) or ('general',)
    feat = feats[0] if feats else 'general'
    try:
        ast = _parser.FormulaParser().parse(text, dict(case.get('names')
                                                      or {}))
    except Exception as err:  # noqa: BLE001
        t = exc_tag(err)
        res.fail('parse-exception:%s:%s:%s' % (t[1], t[2], feat), want, t,
                 text)
        return res
    try:
        got = walk(ast)
    except Exception as err:  # noqa: BLE001
        t = exc_tag(err)
        res.fail('malformed-tree:%s:%s' % (t[1], feat), want, repr(err)[:200],
                 text)
        return res
    if got != want:
        res.fail('tree-mismatch:%s' % feat, want, got, text)
        return res
    # XLFormula must construct (its __post_init__ tokenises)
    xl = lib.lib()
    try:
        xlt = importlib.import_module('xlcalculator.xltypes')
        xlt.XLFormula(text if text.lstrip().startswith('=') else '=' + text,
                      'Sheet1')
    except Exception as err:  # noqa: BLE001
        t = exc_tag(err)
        res.fail('xlformula-exception:%s:%s' % (t[1], feat), 'constructs', t,
                 text)
    return res


def _has_call2(t):
    k = t[0]
    if k in ('par', 'pos', 'neg', 'pct'):
        return _has_call2(t[1])
    if k == 'op':
        return _has_call2(t[2]) or _has_call2(t[3])
    if k == 'call':
        return len(t[2]) >= 2 or any(_has_call2(a) for a in t[2])
    return False


def fuzz_build(d):
    """builder for the Atheris target (same decoder as the strategy)"""
    return _build(d, 5)


def extra(tier, seed, shard, nshards, hb, acc):
    if tier != 'thorough':
        return
    from vf.core import fuzz
    import sys
    fuzz.campaign(sys.modules[__name__], 'fuzz_build', 300000, seed, shard, hb,
                  acc)
