"""C13 - an extracted sub-model computes the same values as the full model."""
import itertools
import os

from vf.core.runner import Result
from vf.core import lib
from vf.core.norm import norm, root_exc, exc_tag, close
from vf.gen import models as GM
from vf.gen import xlsxmin
from vf.gen.decode import decoded
from vf.ref import refeval as R

ID = 'C13'
LEVEL = 'exploration'
RULE = ('Half of the cases with a named range first handle a SIBLING model (same names, another extent) in the same process.  '
        'sampled (Hypothesis-decoded): random acyclic models (dependency '
        'depth 0..5, through cells and ranges, 1-2 sheets; a third of them '
        'loaded from a generated .xlsx with defined names bound to inputs, '
        'formula cells and ranges, used inside formulas and as focus '
        'entries), a non-empty focus list of up to 3 addresses/names, 0-5 '
        'input changes applied to both models, original either never '
        'evaluated or fully evaluated before extraction; enumerated: three '
        'fixed models x every non-empty focus subset of size <= 3.  Oracle: '
        'Evaluator(extract).evaluate(f) = Evaluator(original).evaluate(f) = '
        'reference value for every f in focus, before and after the changes; '
        'extract.cells contains the transitive closure of the focus; '
        'snapshot of the original unchanged by extract.  Non-trivial = some '
        'focus cell has dependency depth >= 2 or depends on a range or a '
        'name; distinct by (model, focus, changes).')
ASSUMPTIONS = [
    'histories: sets/evaluations on the original BEFORE the extraction, '
    'changes applied to both afterwards (optionally without an evaluation '
    'in between), a second extraction from the changed original',
    'only inputs that exist in the extract are changed (others cannot '
    'influence the focus)',
]
CASE_LIMIT_S = 60

FIXED = [
    {'inputs': {'Sheet1!A1': 2, 'Sheet1!A2': 3},
     'formulas': {'Sheet1!B1': ['op', '+', ['ref', 'A1'], ['num', '1']],
                  'Sheet1!C1': ['op', '*', ['ref', 'B1'], ['ref', 'A2']],
                  'Sheet1!D1': ['op', '+', ['ref', 'C1'], ['ref', 'B1']]},
     'sheets': ['Sheet1']},
    {'inputs': {'Sheet1!A1': 1, 'Sheet1!A2': 2, 'Sheet1!A3': 4},
     'formulas': {'Sheet1!B1': ['call', 'SUM', [['range', 'A1:A3']]],
                  'Sheet1!B2': ['op', '+', ['ref', 'A1'], ['num', '1']],
                  'Sheet1!C1': ['call', 'SUM', [['range', 'B1:B2']]]},
     'sheets': ['Sheet1']},
    {'inputs': {'Sheet1!A1': 5},
     'formulas': {'Sheet2!A1': ['op', '+', ['ref', 'Sheet1!A1'],
                                ['num', '1']],
                  'Sheet1!B1': ['op', '*', ['ref', 'Sheet2!A1'],
                                ['num', '3']]},
     'sheets': ['Sheet1', 'Sheet2']},
]
FIXED.append(
    {'inputs': {'Sheet1!X1': 1, 'Sheet1!Y1': 2, 'Sheet1!Z1': 3,
                'Sheet1!AA1': 4, 'Sheet1!AB1': 5, 'Sheet1!ZY2': 6,
                'Sheet1!ZZ2': 7, 'Sheet1!AAA2': 8, 'Sheet1!AAB2': 9},
     'formulas': {'Sheet1!A3': ['call', 'SUM', [['range', 'X1:AB1']]],
                  'Sheet1!A4': ['call', 'SUM', [['range', 'ZY2:AAB2']]],
                  'Sheet1!A5': ['op', '+', ['ref', 'A3'], ['ref', 'A4']]},
     'sheets': ['Sheet1']})
FIXED.append(
    # sheets whose names differ only in letter case, the same coordinates
    # on both inside one formula (qualified and unqualified spellings)
    {'inputs': {'data!A1': 3, 'data!A2': 5, 'DATA!A1': 40, 'DATA!A2': 60},
     'formulas': {'Report!B1': ['op', '+', ['ref', 'data!A1'],
                                ['ref', 'DATA!A1']],
                  'Report!B2': ['op', '+', ['call', 'SUM', [
                      ['range', 'data!A1:A2']]], ['call', 'SUM', [
                          ['range', 'DATA!A1:A2']]]],
                  'data!B1': ['op', '*', ['ref', 'A2'], ['ref', 'DATA!A2']],
                  'Report!C1': ['op', '-', ['ref', 'B1'], ['ref', 'data!B1']]},
     'sheets': ['data', 'DATA', 'Report']})
for _m in FIXED:
    _m['order'] = list(_m['formulas'])


def enumerate_cases(tier, shard=0, nshards=1):
    i = 0
    for mi, m in enumerate(FIXED):
        cells = sorted(m['formulas']) + sorted(m['inputs'])
        for n in (1, 2, 3):
            for focus in itertools.combinations(cells, n):
                for pre in (False, True):
                    i += 1
                    if i % nshards != shard:
                        continue
                    inp = sorted(m['inputs'])
                    yield {'fixed': mi, 'focus': list(focus), 'pre': pre,
                           'changes': [[inp[0], 10], [inp[-1], 7]]}
                    if not pre:
                        yield {'fixed': mi, 'focus': list(focus), 'pre': pre,
                               'twice': True,
                               'changes': [[inp[0], 10], [inp[-1], 7]]}


def _build(d):
    model = GM.build_model(d)
    cells = model['order'] + sorted(model['inputs'])
    use_names = d.pick(3) == 0
    names = []
    if use_names:
        model = GM.workbook_safe(model)
        cells = model['order'] + sorted(model['inputs'])
        cand = sorted(model['inputs']) + model['order']
        for j in range(d.int(1, 3)):
            a = d.choice(cand)
            names.append({'name': 'Nm%d' % j, 'addr': a})
        if d.pick(2):
            exts = ['Sheet1!A1:B2', 'Sheet1!A1:A3', 'Sheet1!A1:C2',
                    'Sheet1!B1:B3', 'Sheet1!A2:B3', 'Sheet1!A1:C3']
            names.append({'name': 'NmRange', 'range': d.choice(exts)})
            # a formula using the names
            tgt = 'Sheet1!F1'
            model['formulas'][tgt] = ['op', '+', ['call', 'SUM', [
                ['ref', 'NmRange']]], ['ref', names[0]['name']]]
            model['order'].append(tgt)
            cells.append(tgt)
    nf = d.int(1, 3)
    focus = []
    for _ in range(nf):
        if names and d.pick(3) == 0:
            nm = d.choice(names)
            focus.append(nm['name'])    # a cell name or a RANGE name
            continue
        if model['order'] and d.pick(4):
            focus.append(d.choice(model['order']))
        else:
            focus.append(d.choice(cells))
    inputs = sorted(model['inputs'])
    changes = [[d.choice(inputs), d.choice([0, 1, -3, 2.5, 10, 100, 7])]
               for _ in range(d.pick(6))]
    # input changes addressed through a defined name (when one is bound to
    # an input): equivalent to using the address, in both models
    in_names = [n['name'] for n in names
                if n.get('addr') in model['inputs']]
    if in_names:
        changes.append([d.choice(in_names), d.choice([11, 0.5, 200])])
        if d.pick(2):
            focus.append(d.choice(in_names))
    # a history on the ORIGINAL model before the extraction (sets and
    # evaluations), and whether the first comparison is skipped so that the
    # changes meet an extract nobody has evaluated yet
    prehist = []
    for _ in range(d.pick(4)):
        if d.pick(2):
            prehist.append(['set', d.choice(inputs),
                            d.choice([0, 1, -3, 2.5, 10, 100, 7])])
        elif model['order']:
            prehist.append(['eval', d.choice(model['order'])])
    raw = {}
    if names and d.pick(2):
        n0 = names[0]['name']
        raw['Sheet1!G1'] = '=%s+1' % d.choice([n0.lower(), n0.upper()])
        if any('range' in n for n in names):
            raw['Sheet1!G2'] = '=SUM(%s)*2' % d.choice(['nmrange', 'NMRANGE'])
    nsets = sum(1 for op in prehist if op[0] == 'set')
    if nsets and d.pick(2):
        # mirrored history: evaluate after the sets, and afterwards as many
        # changes as there were sets before (counters that restart in the
        # extract meet the same numbers again)
        if model['order']:
            prehist.append(['eval', d.choice(model['order'])])
        while len(changes) < nsets:
            changes.append([d.choice(inputs), d.choice([3, 8, 50])])
        changes = changes[:nsets]
    kinds = {}
    if d.pick(3) == 0:
        # inputs of OTHER KINDS (logical, text, blank, float) present when the
        # extraction happens, under consumers that can tell the kinds apart
        # (compared full against extract only)
        kinds = {'Sheet1!XK1': d.choice([True, False, 1, 0.0]),
                 'Sheet1!XK2': d.choice(['x', '', 'TRUE', '7', True]),
                 'Sheet1!XK3': d.choice([2, 2.0, None, False])}
        raw['Sheet1!XL1'] = '=COUNT(XK1:XK3)&"|"&COUNTA(XK1:XK3)'
        raw['Sheet1!XL2'] = '=XK1&"|"&XK2&"|"&XK3'
        raw['Sheet1!XL3'] = '=ISNUMBER(XK1)&ISTEXT(XK2)&ISBLANK(XK3)'
        raw['Sheet1!XL4'] = '=IF(XK1=TRUE,XK3,-1)'
    sib = None
    if any('range' in n for n in names) and d.pick(2):
        # a SIBLING model handled first in the same process: the same names
        # for other cells / another extent (a later revision of a workbook)
        cur = [n['range'] for n in names if 'range' in n][0]
        sib = d.choice([e for e in exts if e != cur])
    mid = [[d.choice(inputs), d.choice([4, 9, 60, 0.5])]
           for _ in range(d.pick(3))]
    return {'sibling': sib, 'twice': d.pick(4) == 0, 'kinds': kinds,
            'mid': mid,
            'model': model, 'focus': sorted(set(focus)), 'pre': bool(
        d.pick(2)), 'changes': changes, 'names': names, 'prehist': prehist,
        'skipfirst': d.pick(3) == 0, 'again': d.pick(2) == 0, 'raw': raw}


def strategy(tier):
    return decoded(_build, min_size=48, max_size=200)


def budget(tier):
    return 3000 if tier == 'quick' else 200000


def snapshot(m):
    cells = {}
    for a, c in m.cells.items():
        cells[a] = ('formula', c.formula.formula) if c.formula is not None \
            else ('const', None)
    return {'cells': cells, 'names': sorted(m.defined_names),
            'ranges': sorted(m.ranges), 'formulae': sorted(m.formulae)}


def const_values(m):
    return {a: norm(c.value) for a, c in m.cells.items()
            if c.formula is None}


def _compile(case, model):
    xl = lib.lib()
    names = case.get('names') or []
    if not names:
        dd = GM.to_dict(model)
        for a in case.get('kinds') or {}:
            dd[a] = 987654
        if case.get('kinds'):
            dd.update(case.get('raw') or {})
        return lib.compile_dict(dd)
    # workbook path (the only one that creates defined names)
    per = {s: {} for s in model['sheets']}
    for a in case.get('kinds') or {}:
        s, a1 = a.split('!')
        per[s][a1] = {'kind': 'n', 'v': 987654}
    for a, v in model['inputs'].items():
        s, a1 = a.split('!')
        per[s][a1] = {'kind': 'n', 'v': v}
    for a, t in model['formulas'].items():
        s, a1 = a.split('!')
        per[s][a1] = {'kind': 'f', 'f': R.render(t)}
    wbn = []
    for n in names:
        if 'addr' in n:
            s, a1 = n['addr'].split('!')
            c, r = R.split_a1(a1)
            wbn.append({'name': n['name'], 'ref': '%s!$%s$%d' % (s, c, r)})
        else:
            s, rng = n['range'].split('!')
            a, b = rng.split(':')
            ca, ra = R.split_a1(a)
            cb, rb = R.split_a1(b)
            wbn.append({'name': n['name'],
                        'ref': '%s!$%s$%d:$%s$%d' % (s, ca, ra, cb, rb)})
    # formulas that spell the names in ANOTHER letter case (whatever they
    # mean - in this library an unknown name reads as blank - they must mean
    # the same in the extract): compared full against extract only
    for a, f in (case.get('raw') or {}).items():
        s, a1 = a.split('!')
        per[s][a1] = {'kind': 'f', 'f': f[1:]}
    wb = {'sheets': [{'name': s, 'cells': per[s]} for s in model['sheets']],
          'names': wbn}
    import tempfile
    fd, fn = tempfile.mkstemp(prefix='vf_c13_', suffix='.xlsx')
    os.close(fd)
    try:
        xlsxmin.write(fn, wb)
        return xl.ModelCompiler().read_and_parse_archive(fn)
    finally:
        os.remove(fn)


def _ref_model(case, model):
    """model for the reference evaluator: names substituted."""
    names = case.get('names') or []
    if not names:
        return model
    sub = {}
    for n in names:
        sub[n['name']] = ['ref', n['addr']] if 'addr' in n else [
            'range', n['range']]

    def rec(t):
        k = t[0]
        if k == 'ref' and t[1] in sub:
            return sub[t[1]]
        if k == 'op':
            return ['op', t[1], rec(t[2]), rec(t[3])]
        if k == 'call':
            return ['call', t[1], [rec(a) for a in t[2]]]
        if k in ('neg', 'par'):
            return [k, rec(t[1])]
        return t
    m2 = dict(model)
    m2['formulas'] = {a: rec(t) for a, t in model['formulas'].items()}
    return m2


def judge(case):
    if case.get('sibling'):
        # the sibling revision first (judged like any other model), then
        # this one: nothing learnt from the first may reach the second
        import copy
        sib = copy.deepcopy(case)
        sib['sibling'] = None
        for n in sib['names']:
            if 'range' in n:
                n['range'] = case['sibling']
        rs = judge(sib)
        if rs.fails:
            return rs
        res = judge(dict(case, sibling=None))
        res.labels = tuple(res.labels) + ('after-sibling-model',)
        return res
    res = Result()
    xl = lib.lib()
    model = FIXED[case['fixed']] if 'fixed' in case else case['model']
    focus, changes = case['focus'], case['changes']
    names = {n['name']: n for n in (case.get('names') or [])}
    rmodel = _ref_model(case, model)
    try:
        m = _compile(case, model)
        ev = xl.Evaluator(m)
        if case['pre']:
            for a in model['order']:
                ev.evaluate(a)
        inputs = dict(model['inputs'])
        for op in case.get('prehist') or []:
            if op[0] == 'set':
                ev.set_cell_value(op[1], op[2])
                inputs[op[1]] = op[2]
            else:
                try:
                    ev.evaluate(op[1])
                except Exception:  # noqa: BLE001 - judged by C04/C07
                    pass
        for a, v in sorted((case.get('kinds') or {}).items()):
            ev.set_cell_value(a, v)
    except Exception as err:  # noqa: BLE001
        t = exc_tag(err)
        res.fail('compile-exception:%s:%s' % (t[1], t[2]), 'model', t)
        return res
    rawf = sorted(case.get('raw') or {})
    if not names and not case.get('kinds'):
        rawf = []
    ex1 = None
    if case.get('twice'):
        # "any model": the original may itself be an extract (of a wider
        # focus: every formula cell, the NAMES only reached through the
        # formulas that use them) whose inputs have moved on since
        try:
            wide = sorted(set([f for f in focus if f not in names] + rawf +
                              list(model['order'])))
            ex1 = xl.ModelCompiler.extract(m, focus=wide)
            ev1 = xl.Evaluator(ex1)
            if case['pre']:
                for a in model['order']:
                    if a in ex1.cells:
                        ev1.evaluate(a)
            for a, v in case.get('mid') or []:
                addr = names[a]['addr'] if a in names else a
                if addr in ex1.cells and addr in model['inputs']:
                    ev.set_cell_value(addr, v)
                    ev1.set_cell_value(addr, v)
                    inputs[addr] = v
        except Exception as err:  # noqa: BLE001
            t = exc_tag(err)
            res.fail('extract-exception:%s:%s:wide' % (t[1], t[2]),
                     'extracted model', t, focus)
            return res
        keep = [f for f in focus if f not in names
                or f in ex1.defined_names]
        if keep:
            focus = keep
        else:
            ex1 = None
    before = snapshot(m)
    consts_before = const_values(m)
    try:
        if ex1 is not None:
            ex = xl.ModelCompiler.extract(ex1, focus=list(focus) + rawf)
        else:
            ex = xl.ModelCompiler.extract(m, focus=list(focus) + rawf)
    except Exception as err:  # noqa: BLE001
        t = exc_tag(err)
        res.fail('extract-exception:%s:%s:%s' % (
            t[1], t[2], 'pre-evaluated' if case['pre'] else 'fresh'),
            'extracted model', t, focus)
        return res
    after = snapshot(m)
    if after != before or const_values(m) != consts_before:
        res.fail('extract-changes-original', 'unchanged', [
            k for k in before if before[k] != after[k]], focus)
        return res
    # a focused RANGE name cannot be evaluated (the evaluator says so); its
    # cells must be in the extract
    range_focus = [f for f in focus if f in names and 'range' in names[f]]
    focus = [f for f in focus if f not in range_focus]
    for f in range_focus:
        sh_, rng_ = names[f]['range'].split('!')
        need_r = [sh_ + '!' + a for row in R.range_cells(rng_) for a in row]
        miss = sorted(a for a in need_r if a in m.cells and (
            m.cells[a].formula is not None or m.cells[a].value not in (
                None, '')) and a not in ex.cells)
        if miss or f not in ex.defined_names:
            res.fail('range-name-focus-not-extracted', need_r,
                     miss or 'name missing', f)
            return res
    faddr = [names[f]['addr'] if f in names else f for f in focus]
    dp = GM.deps(rmodel)
    depth = max([GM.depth(rmodel, a, dp) for a in faddr] + [0])
    via_range = any('range' in str(model['formulas'].get(a)) for a in
                    GM.closure(rmodel, faddr) if a in model['formulas'])
    res.nontrivial = depth >= 2 or via_range or bool(names)
    res.labels = ('depth:%d' % min(depth, 4),
                  'range' if via_range else 'cells-only',
                  'names' if names else 'no-names',
                  'pre' if case['pre'] else 'fresh')
    cls = ('names' if names else 'range' if via_range
           else 'depth>=2' if depth >= 2 else 'depth<2')
    # closure containment
    need = [a for a in GM.closure(rmodel, faddr)
            if a in model['inputs'] or a in model['formulas']]
    missing = sorted(a for a in need if a not in ex.cells)
    if missing:
        res.fail('closure-not-extracted:%s' % cls, need, missing, focus)
        return res
    ev2 = xl.Evaluator(ex)
    evs = {'ex': ev2}

    def compare(stage, which='ex'):
        ev2 = evs[which]
        for f, a in zip(focus, faddr):
            try:
                o1 = norm(ev.evaluate(f))
            except Exception as err:  # noqa: BLE001
                o1 = root_exc(err)
            try:
                o2 = norm(ev2.evaluate(f))
            except Exception as err:  # noqa: BLE001
                o2 = root_exc(err)
            if a in rmodel['formulas']:
                want = R.tag(GM.ref_values(rmodel, inputs, [a])[a])
            else:
                v = inputs.get(a)
                want = ('N', float(v)) if v is not None else None
            if want is not None and not close(o1, want, rel=1e-12):
                res.fail('original-disagrees-with-reference:%s' % cls, want,
                         o1, [stage, f])
                return False
            if not close(o2, o1, rel=1e-12):
                b = 'extract-differs:%s:%s' % (cls, stage)
                if o2[0] == 'X':
                    b = 'extract-eval-exception:%s:%s' % (o2[1], cls)
                res.fail(b, o1, o2, [stage, f, focus])
                return False
        return True
    if not case.get('skipfirst') and not compare('before-changes'):
        return res
    for a, v in changes:
        addr = names[a]['addr'] if a in names else a
        if addr not in ex.cells or (a in names
                                    and a not in ex.defined_names):
            continue
        ev.set_cell_value(a, v)
        ev2.set_cell_value(a, v)
        inputs[addr] = v
        g1, g2 = norm(ev.get_cell_value(addr)), norm(ev2.get_cell_value(addr))
        if g1 != g2:
            res.fail('set-in-extract-not-applied:%s' % (
                'by-name' if a in names else 'by-address'), g1, g2, [a, v])
            return res
    if not compare('after-changes'):
        return res
    for a in rawf:
        try:
            o1 = norm(ev.evaluate(a))
        except Exception as err:  # noqa: BLE001
            o1 = root_exc(err)
        try:
            o2 = norm(evs['ex'].evaluate(a))
        except Exception as err:  # noqa: BLE001
            o2 = root_exc(err)
        if not close(o2, o1, rel=1e-12):
            res.fail('extract-differs:name-in-other-case', o1, o2,
                     [a, case['raw'][a]])
            return res
    if case.get('again'):
        # a SECOND extraction from the same original, which has moved on
        # since the first: it must show the current state and be a model of
        # its own (a set in it reaches neither the original nor the first)
        try:
            ex2 = xl.ModelCompiler.extract(m, focus=list(case['focus']))
        except Exception as err:  # noqa: BLE001
            t = exc_tag(err)
            res.fail('extract-exception:%s:%s:second' % (t[1], t[2]),
                     'extracted model', t, focus)
            return res
        evs['ex2'] = xl.Evaluator(ex2)
        if not compare('second-extraction', 'ex2'):
            return res
        ins = sorted(a for a in model['inputs'] if a in ex2.cells
                     and a in ex.cells)
        if ins:
            a = ins[0]
            g0 = norm(ev.get_cell_value(a))
            evs['ex2'].set_cell_value(a, 424242)
            g1 = norm(ev.get_cell_value(a))
            g2 = norm(evs['ex'].get_cell_value(a))
            if g1 != g0 or g2 != g0:
                res.fail('extractions-share-cells', g0, [g1, g2], a)
    return res
