"""C09 - the comparison operators implement one total order on values."""
import datetime
import itertools

from vf.core.runner import Result
from vf.core import lib
from vf.core.norm import norm, exc_tag, root_exc
from vf.gen.decode import decoded

ID = 'C09'
LEVEL = 'exploration'
RULE = ('enumerated: a pool of 46 values (ints/floats incl. equal int/float, '
        'negative, zero; dates and the numbers equal to their serials; texts: '
        'empty, numeric-looking, true/false spellings, mixed-case pairs, '
        'prefixes, inner blanks, punctuation, non-ASCII; booleans; blank) - '
        'every ordered pair through all six operators in both directions, as '
        'direct calls xl.FUNCTIONS[OP_*] with library value objects and as '
        'formulas =A1 op B1 with the values in cells, and every ordered '
        'triple for transitivity (direct calls); sampled: Hypothesis-decoded '
        'pairs/triples of numbers and texts over a collision-rich alphabet. '
        'Non-trivial = operands of different type, or same type and '
        'different value; triples: pairwise distinct order keys; distinct by '
        '(mode, operands).')
ASSUMPTIONS = [
    'expected order = (0, number or date serial) < (1, upper-cased text) < '
    '(2, boolean); the relative ORDER of two texts is asserted only when both '
    'consist of ASCII letters, digits and blanks (collation of punctuation '
    'and non-ASCII is not pinned down); the laws (trichotomy, consistency '
    'of the six operators, antisymmetry, transitivity) are asserted on the '
    "library's answers for all texts",
    'comparisons of native Python operands are not asserted (the repository '
    'tests pin Python semantics for OP_EQ(True, 1))',
    'blank: equal to 0, "", FALSE and blank and to nothing else (= and <> '
    'only; the ordering of a blank is not asserted)',
]

OPS = [('OP_LT', '<'), ('OP_EQ', '='), ('OP_GT', '>'), ('OP_LE', '<='),
       ('OP_GE', '>='), ('OP_NE', '<>')]

POOL = (
    [['n', v] for v in (-1000000, -2, -1.5, -1, 0, 0.0, 0.5, 1, 1.0, 2, 10,
                        43831, 43831.0, 44000, 1e300,
                        # neighbours that no double can tell apart, and the
                        # ends of the range
                        9007199254740992, 9007199254740993,
                        9007199254740992.0, -9007199254740993, 5e-324,
                        -5e-324, 1.7976931348623157e308, -1e300,
                        0.1 + 0.2, 0.3)] +
    [['d', s] for s in (61, 43831, 44000)] +
    [['s', v] for v in ('', '1', '-1', '1e3', '10', '2', 'true', 'TRUE',
                        'False', 'a', 'A', 'ab', 'aB', 'Ab ', 'a b', 'b',
                        'B', 'abc', 'ABD', 'z', 'Z9', ' a', 'a-b', 'a_b',
                        u'é', u'É',
                        # characters that are wildcards, patterns or escapes
                        # elsewhere are ordinary characters under = < >
                        'a*', '*', 'a?', '?', '~*', 'a.c', '.*', '[ab]',
                        'a%', 'a\\b')] +
    # long texts that only differ beyond the 255th character
    [['s', 'x' * 255], ['s', 'X' * 255 + 'a'], ['s', 'x' * 255 + 'B'],
     ['s', 'x' * 300 + 'a']] +
    [['b', False], ['b', True]] +
    [['z']]
)


def _plain(s):
    return all(c.isascii() and (c.isalnum() or c == ' ') for c in s)


def key(v):
    t = v[0]
    if t in ('n', 'd'):
        # exact: Python compares an int with a float by value, without
        # rounding the int to a double first
        return (0, v[1])
    if t == 's':
        return (1, v[1].upper())
    if t == 'b':
        return (2, int(v[1]))
    raise ValueError(v)


def order_defined(a, b):
    if a[0] == 'z' or b[0] == 'z':
        return False
    if a[0] == 's' and b[0] == 's':
        if a[1].upper() == b[1].upper():
            return True
        return _plain(a[1]) and _plain(b[1])
    return True


def serial_to_dt(n):
    return datetime.datetime(1899, 12, 30) + datetime.timedelta(days=n)


def to_lib(v):
    xl = lib.lib()
    t = v[0]
    if t == 'n':
        return xl.Number(v[1])
    if t == 'd':
        return xl.DateTime(serial_to_dt(v[1]))
    if t == 's':
        return xl.Text(v[1])
    if t == 'b':
        return xl.Boolean(v[1])
    return xl.BLANK


def to_native(v):
    t = v[0]
    if t == 'd':
        return serial_to_dt(v[1])
    if t == 'z':
        return None
    return v[1]


def enumerate_cases(tier, shard=0, nshards=1):
    i = 0
    for a, b in itertools.product(POOL, repeat=2):
        i += 1
        if i % nshards != shard:
            continue
        yield {'kind': 'pair', 'mode': 'call', 'a': a, 'b': b}
        yield {'kind': 'pair', 'mode': 'formula', 'a': a, 'b': b}
        if _lit(a) is not None and _lit(b) is not None:
            yield {'kind': 'pair', 'mode': 'literal', 'a': a, 'b': b}
    nonblank = [v for v in POOL if v[0] != 'z']
    for a, b, c in itertools.product(nonblank, repeat=3):
        i += 1
        if i % nshards != shard:
            continue
        yield {'kind': 'triple', 'mode': 'call', 'a': a, 'b': b, 'c': c}


ALPHA = ['a', 'A', 'b', 'B', 'c', '1', '2', ' ', 'z', 'Z', '0', '-', '.',
         u'é', u'É', 'e', 'E']


def _val(d):
    k = d.pick(10)
    if k < 3:
        return ['n', d.int(-20, 20)]
    if k < 5:
        return ['n', d.int(-2000, 2000) / 8.0]
    if k == 5:
        return ['d', d.int(61, 60000)]
    if k == 6:
        return ['b', bool(d.pick(2))]
    n = d.pick(5)
    t = ''.join(d.choice(ALPHA) for _ in range(n))
    if d.chance(1, 12):
        t = d.choice(['q', 'Q']) * d.choice([254, 255, 256, 1000]) + t
    return ['s', t]


def _build(d):
    kind = d.pick(3)
    mode = 'call' if d.pick(4) else 'formula'
    a, b = _val(d), _val(d)
    if d.chance(1, 4) and b[0] == 's' and a[0] == 's':
        b = ['s', a[1].swapcase()]
    if kind == 2:
        return {'kind': 'triple', 'mode': 'call', 'a': a, 'b': b,
                'c': _val(d)}
    return {'kind': 'pair', 'mode': mode, 'a': a, 'b': b}


def strategy(tier):
    return decoded(_build, min_size=8, max_size=40)


def budget(tier):
    return 20000 if tier == 'quick' else 2000000


def _call_all(a, b):
    la, lb = to_lib(a), to_lib(b)
    out = {}
    for name, sym in OPS:
        try:
            out[sym] = norm(lib.fn(name)(la, lb))
        except Exception as err:  # noqa: BLE001
            out[sym] = exc_tag(err)
    return out


def _lit(v):
    t = v[0]
    if t == 'n':
        if abs(v[1]) >= 1e15 or (v[1] != 0 and abs(v[1]) < 1e-4):
            return None
        return repr(v[1]) if v[1] >= 0 else '(' + repr(v[1]) + ')'
    if t == 's':
        return '"' + v[1].replace('"', '""') + '"'
    if t == 'b':
        return 'TRUE' if v[1] else 'FALSE'
    return None


def _literal_all(a, b):
    la, lb = _lit(a), _lit(b)
    fwd, rev = {}, {}
    for name, sym in OPS:
        fwd[sym] = lib.eval_formula('=%s%s%s' % (la, sym, lb))[0]
        rev[sym] = lib.eval_formula('=%s%s%s' % (lb, sym, la))[0]
    return fwd, rev


def _formula_all(a, b, warm=False):
    xl = lib.lib()
    cells = {}
    presets = {}
    for addr, v in (('Sheet1!A1', a), ('Sheet1!B1', b)):
        if v[0] == 'z':
            continue
        if v[0] == 'n':
            cells[addr] = v[1]
        elif v[0] == 's' and v[1] != '' and not v[1].startswith('='):
            cells[addr] = v[1]
        else:
            cells[addr] = 0
            presets[addr] = to_native(v)
    fwd, rev = {}, {}
    for i, (name, sym) in enumerate(OPS):
        cells['Sheet1!C%d' % (i + 1)] = '=A1%sB1' % sym
        cells['Sheet1!D%d' % (i + 1)] = '=B1%sA1' % sym
    try:
        model = lib.compile_dict(cells)
        ev = xl.Evaluator(model)
        for addr, v in presets.items():
            ev.set_cell_value(addr, v)
    except Exception as err:  # noqa: BLE001
        t = exc_tag(err)
        return ({s: t for _, s in OPS}, {s: t for _, s in OPS})
    if warm:
        # history: the twelve comparison cells are first evaluated with the
        # two operands EXCHANGED, then the operands are put in place with
        # set_cell_value and everything is evaluated again on the same
        # evaluator; only the second answers are judged
        try:
            ev.set_cell_value('Sheet1!A1', to_native(b))
            ev.set_cell_value('Sheet1!B1', to_native(a))
            for i in range(len(OPS)):
                for col in 'CD':
                    try:
                        ev.evaluate('Sheet1!%s%d' % (col, i + 1))
                    except Exception:  # noqa: BLE001
                        pass
            ev.set_cell_value('Sheet1!A1', to_native(a))
            ev.set_cell_value('Sheet1!B1', to_native(b))
        except Exception as err:  # noqa: BLE001
            t = exc_tag(err)
            return ({s: t for _, s in OPS}, {s: t for _, s in OPS})
    for i, (name, sym) in enumerate(OPS):
        fwd[sym] = lib.evaluate(model, 'Sheet1!C%d' % (i + 1), ev)
        rev[sym] = lib.evaluate(model, 'Sheet1!D%d' % (i + 1), ev)
    return fwd, rev


def _types(*vs):
    return '-'.join(v[0] for v in vs)


def judge(case):
    res = Result()
    if case['kind'] == 'triple':
        return _judge_triple(case, res)
    a, b, mode = case['a'], case['b'], case['mode']
    ty = _types(a, b)
    if mode == 'call':
        fwd, rev = _call_all(a, b), _call_all(b, a)
    elif mode == 'literal':
        fwd, rev = _literal_all(a, b)
    else:
        import zlib
        warm = zlib.crc32(repr((a, b)).encode()) % 3 == 0
        fwd, rev = _formula_all(a, b, warm)
    blank = a[0] == 'z' or b[0] == 'z'
    res.labels = (mode, 'types:' + ty)
    if blank:
        o = b if a[0] == 'z' else a
        listed = (o[0] == 'z' or (o[0] == 'n' and o[1] == 0)
                  or (o[0] == 's' and o[1] == '')
                  or (o[0] == 'b' and o[1] is False))
        res.nontrivial = True
        # a blank is 0, "" and FALSE - and nothing else: against any other
        # value "=" answers FALSE (and "<>" the opposite of "=")
        for name, r in (('fwd', fwd), ('rev', rev)):
            if r['='] != ('B', listed):
                res.fail('blank-%s:%s:%s' % (
                    'equality' if listed else 'equals-unlisted-value',
                    mode, ty), ('B', listed), r['='], name)
            elif r['<>'] != ('B', not listed):
                res.fail('blank-ne-inconsistent:%s:%s' % (mode, ty),
                         ('B', not listed), r['<>'], name)
        for r in (fwd, rev):
            for sym, t in r.items():
                if t[0] == 'X':
                    res.fail('exception:%s:%s:%s' % (t[1], t[2], ty), 'value',
                             t, sym)
        return res
    ka, kb = key(a), key(b)
    res.nontrivial = a[0] != b[0] or ka != kb
    # every operator answers with a boolean
    for name, r in (('fwd', fwd), ('rev', rev)):
        for sym, t in r.items():
            if t[0] == 'X':
                res.fail('exception:%s:%s:%s' % (t[1], t[2], ty), 'boolean',
                         t, name + sym)
            elif t[0] != 'B':
                res.fail('non-boolean:%s:%s' % (sym, ty), 'boolean', t, name)
    if res.fails:
        return res
    f = {s: t[1] for s, t in fwd.items()}
    r = {s: t[1] for s, t in rev.items()}
    # laws on the library's own answers
    if [f['<'], f['='], f['>']].count(True) != 1:
        res.fail('law:trichotomy:%s:%s' % (mode, ty), 'exactly one of < = >',
                 [f['<'], f['='], f['>']])
    if f['<='] != (f['<'] or f['=']):
        res.fail('law:le:%s:%s' % (mode, ty), f['<'] or f['='], f['<='])
    if f['>='] != (f['>'] or f['=']):
        res.fail('law:ge:%s:%s' % (mode, ty), f['>'] or f['='], f['>='])
    if f['<>'] != (not f['=']):
        res.fail('law:ne:%s:%s' % (mode, ty), not f['='], f['<>'])
    if f['<'] != r['>'] or f['>'] != r['<'] or f['='] != r['=']:
        res.fail('law:converse:%s:%s' % (mode, ty),
                 'a<b == b>a, a>b == b<a, a=b == b=a',
                 {'fwd': f, 'rev': r})
    # the specified order
    if order_defined(a, b):
        exp = {'<': ka < kb, '=': ka == kb, '>': ka > kb, '<=': ka <= kb,
               '>=': ka >= kb, '<>': ka != kb}
        for sym in exp:
            if f[sym] != exp[sym]:
                res.fail('order:%s:%s' % (mode, ty), exp, f, sym)
                break
    return res


def _lt(a, b):
    try:
        return norm(lib.fn('OP_LT')(to_lib(a), to_lib(b)))
    except Exception as err:  # noqa: BLE001
        return exc_tag(err)


def _judge_triple(case, res):
    a, b, c = case['a'], case['b'], case['c']
    if 'z' in (a[0], b[0], c[0]):
        return res
    ty = _types(a, b, c)
    ab, bc, ac = _lt(a, b), _lt(b, c), _lt(a, c)
    ks = {key(a), key(b), key(c)}
    res.nontrivial = len(ks) == 3
    res.labels = ('triple', 'types:' + ty)
    for t in (ab, bc, ac):
        if t[0] != 'B':
            res.fail('exception-or-nonbool:%s:%s' % (t[1], ty), 'boolean', t)
            return res
    if ab[1] and bc[1] and not ac[1]:
        res.fail('law:transitivity:%s' % ty, 'a<b, b<c => a<c',
                 [ab[1], bc[1], ac[1]])
    # the SAME value objects compared several times in a row: an answer must
    # not depend on what the object was compared with before
    la, lb, lc = to_lib(a), to_lib(b), to_lib(c)
    for name, sym in OPS:
        f = lib.fn(name)
        try:
            seq = [norm(f(la, lb)), norm(f(la, lc)), norm(f(lb, lc)),
                   norm(f(lc, la)), norm(f(la, lc))]
            fresh = [norm(f(to_lib(a), to_lib(b))),
                     norm(f(to_lib(a), to_lib(c))),
                     norm(f(to_lib(b), to_lib(c))),
                     norm(f(to_lib(c), to_lib(a))),
                     norm(f(to_lib(a), to_lib(c)))]
        except Exception as err:  # noqa: BLE001
            res.fail('exception-or-nonbool:%s:%s' % (type(err).__name__, ty),
                     'boolean', exc_tag(err))
            return res
        if seq != fresh:
            res.fail('answer-depends-on-earlier-comparisons:%s' % ty, fresh,
                     seq, sym)
            return res
    # ... and one CELL referenced twice in one formula
    import zlib
    if zlib.crc32(repr((a, b, c)).encode()) % 5 == 0 and all(
            v[0] in ('n', 's') and not (v[0] == 's' and (
                v[1] == '' or v[1].startswith('='))) for v in (a, b, c)):
        cells = {'Sheet1!A1': a[1], 'Sheet1!B1': b[1], 'Sheet1!C1': c[1]}
        for sym in ('=', '<', '<='):
            f1 = '=IF(A1<>B1,A1%sC1,A1%sC1)' % (sym, sym)
            f2 = '=A1%sC1' % sym
            o1 = lib.eval_formula(f1, cells, addr='Sheet1!Z1')[0]
            o2 = lib.eval_formula(f2, cells, addr='Sheet1!Z1')[0]
            if o1 != o2:
                res.fail('cell-compared-twice-in-one-formula:%s' % ty, o2,
                         o1, [f1, cells])
                return res
    return res
