"""C07 - Excel errors are values that propagate; typed operands never crash."""
import datetime
import itertools

from vf.core.runner import Result
from vf.core import lib
from vf.core.norm import norm, exc_tag
from vf.gen import functable as FT
from vf.gen.decode import decoded
from vf.ref import refeval as R

ID = 'C07'
LEVEL = 'exploration'
EXHAUSTIVE = {'quick': True, 'thorough': True}
RULE = ("Equal-for-Python values of different kinds (1, TRUE, 1.0, 0, FALSE, 0.0, '1', 'TRUE') side by side in one model, inspected by one evaluator in rotated placement and evaluation order.  "
        'enumerated (finite, complete): (a) the 12 binary operators, unary '
        'minus x operand position x 7 error codes x 12 representative other '
        'operands (one per scalar type and edge), as direct calls with '
        'library objects, as formulas with error literals and with '
        'references to cells whose formula yields the error, plus both '
        'operands errors (leftmost wins); (b) every registered function '
        '(enumerated from xl.FUNCTIONS by signature) x every scalar parameter '
        'position x 7 codes, other positions from a table of valid samples, '
        'direct call and formula; (c) aggregating functions with the error '
        'as direct argument, inside a variadic list and as one cell of a '
        'range, at every position; (d) every operator x every ordered pair '
        'of the 12 scalar operands: value or ExcelError, never an exception; '
        '(e) chains of 2-4 cells where a formula yields each error: stored '
        'value and dependants; (f) ISERROR/ISERR/ISNA/NA/ISNUMBER/ISTEXT/'
        'ISBLANK truth tables; sampled: operator trees (C01 grammar) with '
        '1-3 error leaves buried at depth <= 4.  Non-trivial: every case '
        'whose other operands are valid for the function; distinct by case.')
ASSUMPTIONS = [
    'exempt by the statement: ISBLANK ISERR ISERROR ISNA ISNUMBER ISTEXT '
    'COUNT COUNTA COUNTIF COUNTIFS; lazily evaluated positions of IF/AND/OR/'
    'NOT belong to C10; CHOOSE only with the error in the index or the '
    'selected value; SUMIF/SUMIFS not runnable under pandas 3',
    "'is that error' = same Excel error code; the info text is ignored",
]

CODES = ['#NULL!', '#DIV/0!', '#VALUE!', '#REF!', '#NAME?', '#NUM!', '#N/A']
BIN = {'+': 'OP_ADD', '-': 'OP_SUB', '*': 'OP_MUL', '/': 'OP_DIV',
       '^': 'POWER', '&': 'CONCAT', '=': 'OP_EQ', '<>': 'OP_NE',
       '<': 'OP_LT', '>': 'OP_GT', '<=': 'OP_LE', '>=': 'OP_GE'}
OPERANDS = [['n', 3], ['n', -2.5], ['n', 0], ['s', '7'], ['s', 'abc'],
            ['s', ''], ['b', True], ['b', False], ['z'], ['d', 43831],
            ['n', 1e10], ['s', '1e2'],
            # the ends of the number range: results may leave it
            ['n', 1e308], ['n', -1.5e308], ['n', 5e-324], ['s', '1e308'],
            # TEXT that spells an error code is text, not an error
            ['s', '#DIV/0!'], ['s', '#N/A'], ['s', '#REF!']]
# operands PRODUCED by formulas at the edge of the number range (operator
# family, formula mode only)
FORMULA_OPERANDS = [['f', '=10^300*10^300'], ['f', '=10^308+10^308'],
                    ['f', '=-(10^200)*10^200'], ['f', '=2^1023']]
# formulas that YIELD each error in a cell
YIELD = {'#DIV/0!': '=1/0', '#N/A': '=NA()', '#VALUE!': '="a"+1',
         '#NUM!': '=SQRT(-1)', '#REF!': '=#REF!', '#NAME?': '=#NAME?',
         '#NULL!': '=#NULL!'}
AGGS = ['SUM', 'AVERAGE', 'MIN', 'MAX', 'CONCAT', 'NPV', 'SUMPRODUCT']


def to_lib(v):
    xl = lib.lib()
    t = v[0]
    if t == 'n':
        return xl.Number(v[1])
    if t == 's':
        return xl.Text(v[1])
    if t == 'b':
        return xl.Boolean(v[1])
    if t == 'd':
        return xl.DateTime(datetime.datetime(1899, 12, 30)
                           + datetime.timedelta(days=v[1]))
    if t == 'e':
        return xl.ERRORS_BY_CODE[v[1]]()
    return xl.BLANK


def lit(v):
    t = v[0]
    if t == 'n':
        return repr(v[1]) if v[1] >= 0 else '(' + repr(v[1]) + ')'
    if t == 's':
        return '"' + v[1].replace('"', '""') + '"'
    if t == 'b':
        return 'TRUE' if v[1] else 'FALSE'
    if t == 'e':
        return v[1]
    return None


def enumerate_cases(tier, shard=0, nshards=1):
    xl = lib.lib()
    out = []
    # (a)
    for sym in BIN:
        for code in CODES:
            for pos in (0, 1):
                for other in OPERANDS:
                    for mode in ('call', 'literal', 'cellref'):
                        out.append({'k': 'op-err', 'op': sym, 'pos': pos,
                                    'code': code, 'other': other,
                                    'mode': mode})
        for c1, c2 in itertools.permutations(CODES, 2):
            for mode in ('call', 'literal'):
                out.append({'k': 'op-err2', 'op': sym, 'codes': [c1, c2],
                            'mode': mode})
    for code in CODES:
        for mode in ('call', 'literal', 'cellref'):
            out.append({'k': 'op-err', 'op': 'u-', 'pos': 0, 'code': code,
                        'other': None, 'mode': mode})
    # (b)
    for name in sorted(xl.FUNCTIONS):
        if name in FT.VOLATILE or name in FT.ERROR_INSPECTORS or \
                name in FT.LAZY or name in FT.PANDAS_BROKEN:
            continue
        if name.startswith('OP_') or name in ('POWER',):
            pass
        for si, args in enumerate(FT.samples_for(xl, name)):
            kinds = FT.kinds_of_args(xl, name, args)
            for pos, k in enumerate(kinds):
                if k in ('array', 'expr'):
                    continue
                if name == 'CHOOSE' and pos not in (0, args[0]):
                    continue
                for code in CODES:
                    for mode in ('call', 'formula', 'cellref'):
                        out.append({'k': 'fn-err', 'fn': name, 'sample': si,
                                    'pos': pos, 'code': code, 'mode': mode})
    # (c)
    for fn in AGGS:
        for where in ('direct', 'variadic', 'range'):
            for pos in (0, 1, 2):
                for code in CODES:
                    out.append({'k': 'agg-err', 'fn': fn, 'where': where,
                                'pos': pos, 'code': code})
    # (c2) two errors of different codes: the leftmost in argument order
    # (range cells in row-major order) wins
    for fn in AGGS:
        if fn == 'SUMPRODUCT':
            continue
        for c1, c2 in itertools.permutations(CODES, 2):
            for arr in ('range-scalar', 'scalar-range', 'range-range',
                        'scalar-scalar', 'tworanges', 'row-across-z',
                        'row-across-zz', 'block-row-major'):
                out.append({'k': 'agg-err2', 'fn': fn, 'codes': [c1, c2],
                            'arr': arr})
    # (c3) an error cell that follows a long run of blank cells in the range
    for fn in AGGS:
        if fn == 'SUMPRODUCT':
            continue
        for gap in (1, 99, 100, 101, 150, 300):
            for code in ('#DIV/0!', '#N/A', '#REF!'):
                out.append({'k': 'agg-gap', 'fn': fn, 'gap': gap,
                            'code': code})
    # (d)
    for sym in list(BIN) + ['u-']:
        for a in OPERANDS + FORMULA_OPERANDS:
            for b in (OPERANDS + FORMULA_OPERANDS if sym != 'u-'
                      else [None]):
                for mode in ('call', 'formula'):
                    out.append({'k': 'op-types', 'op': sym, 'a': a, 'b': b,
                                'mode': mode})
    # (e)
    for code in CODES:
        for n in (2, 3, 4):
            out.append({'k': 'chain', 'code': code, 'len': n})
    # (f)
    for fn in ('ISERROR', 'ISERR', 'ISNA', 'ISNUMBER', 'ISTEXT', 'ISBLANK'):
        for arg in [['e', c] for c in CODES] + OPERANDS:
            for mode in ('call', 'formula'):
                out.append({'k': 'is', 'fn': fn, 'arg': arg, 'mode': mode})
    # inspectors applied to an error that TRAVELLED: out of a cell whose
    # formula yields it, through a range into an aggregate, through a
    # dependant cell
    for fn in ('ISERROR', 'ISERR', 'ISNA'):
        for code in CODES:
            for route in ('cell', 'range-agg', 'agg-cell', 'arith-cell',
                          'concat-range'):
                out.append({'k': 'is-route', 'fn': fn, 'code': code,
                            'route': route})
    # inspectors applied to the RESULT OF ANOTHER FUNCTION, handed over
    # directly as an argument (a boolean stays a boolean, a number a number)
    for fn in ('ISNUMBER', 'ISTEXT', 'ISBLANK', 'ISERROR', 'ISERR', 'ISNA'):
        for inner, kind in NESTED:
            out.append({'k': 'is-nested', 'fn': fn, 'inner': inner,
                        'kind': kind})
    # values that are EQUAL for Python (1, TRUE, 1.0 / 0, FALSE, 0.0) next to
    # one another in plain cells of one model, inspected by one evaluator in
    # every rotation of placement and of evaluation order
    for rot in range(len(COEXIST)):
        for rev in (0, 1):
            for erot in range(0, len(COEXIST), 3):
                out.append({'k': 'is-coexist', 'rot': rot, 'rev': rev,
                            'erot': erot})
    out.append({'k': 'is', 'fn': 'NA', 'arg': None, 'mode': 'call'})
    out.append({'k': 'is', 'fn': 'NA', 'arg': None, 'mode': 'formula'})
    for i, c in enumerate(out):
        if i % nshards == shard:
            yield c


# sampled: operator trees with buried errors

def _tree(d, depth, errs):
    if depth <= 0 or d.pick(4) == 0:
        k = d.pick(6)
        if k == 0 and len(errs) < 3:
            c = d.choice(CODES)
            errs.append(c)
            return ['err', c]
        if k == 1 and len(errs) < 3:
            c = d.choice(CODES)
            errs.append(c)
            return ['ref', 'E%d' % (CODES.index(c) + 1)]
        if k == 2:
            return ['ref', d.choice(['A1', 'B1', 'C1'])]
        return ['num', d.choice(['2', '3', '5', '7', '0.5'])]
    if d.pick(6) == 0:
        return ['neg', _tree(d, depth - 1, errs)]
    sym = d.choice(['+', '-', '*', '/', '&', '=', '<>', '<', '>', '<=', '>=',
                    '+', '*'])
    l = _tree(d, depth - 1, errs)
    r = _tree(d, depth - 1, errs)
    return ['op', sym, l, r]


def _build(d):
    errs = []
    t = _tree(d, 4, errs)
    if not errs:
        c = d.choice(CODES)
        t = ['op', d.choice(['+', '&', '=', '*']), t, ['err', c]]
    return {'k': 'tree', 'tree': t}


def strategy(tier):
    return decoded(_build, min_size=16, max_size=64)


def budget(tier):
    return 16000 if tier == 'quick' else 1000000


# -------------------------------------------------------------------- judge

def E(code):
    return ('E', code)


def _call(name, *args):
    try:
        return norm(lib.fn(name)(*args))
    except KeyError:
        return ('X', 'KeyError', 'FUNCTIONS')
    except Exception as err:  # noqa: BLE001
        return exc_tag(err)


def _place(cells, presets, addr, v):
    """put operand v at addr (dict format or preset)."""
    t = v[0]
    if t == 'z':
        return
    if t == 'n':
        cells[addr] = v[1]
    elif t == 's' and v[1] != '' and not v[1].startswith('='):
        cells[addr] = v[1]
    elif t == 'e':
        cells[addr] = YIELD[v[1]]
    elif t == 'f':
        cells[addr] = v[1]          # a formula producing the operand
    else:
        cells[addr] = 0
        presets[addr] = (v[1] if t != 'd' else datetime.datetime(
            1899, 12, 30) + datetime.timedelta(days=v[1]))


def _opclass(sym):
    if sym in ('=', '<>'):
        return 'eq'
    if sym in ('<', '>', '<=', '>='):
        return 'order'
    if sym == '&':
        return 'concat'
    return 'arith' if sym != 'u-' else 'neg'


def judge(case):
    res = Result()
    k = case['k']
    res.labels = (k,)
    res.nontrivial = True
    if k == 'op-err':
        return _op_err(case, res)
    if k == 'op-err2':
        sym, (c1, c2), mode = case['op'], case['codes'], case['mode']
        if mode == 'call':
            o = _call(BIN[sym], to_lib(['e', c1]), to_lib(['e', c2]))
            note = [BIN[sym], c1, c2]
        else:
            note = '=%s%s%s' % (c1, sym, c2)
            o = lib.eval_formula(note)[0]
        if o != E(c1):
            res.fail('leftmost-error:%s:%s' % (_opclass(sym), mode), E(c1), o,
                     note)
        return res
    if k == 'fn-err':
        return _fn_err(case, res)
    if k == 'agg-err':
        return _agg_err(case, res)
    if k == 'agg-gap':
        fn, gap, code = case['fn'], case['gap'], case['code']
        last = gap + 2
        cells = {'Sheet1!A1': 5, 'Sheet1!A%d' % last: YIELD[code],
                 'Sheet1!A%d' % (last + 1): 7}
        lead = '0.1,' if fn == 'NPV' else ''
        f = '=%s(%sA1:A%d)' % (fn, lead, last + 1)
        o = lib.eval_formula(f, cells, addr='Sheet1!ZZ9')[0]
        res.labels += (fn, 'gap')
        if o != E(code):
            res.fail('agg-error-after-blank-run:%s' % (
                'gap>100' if gap > 100 else 'gap<=100'), E(code), o, f)
        return res
    if k == 'agg-err2':
        fn, (c1, c2), arr = case['fn'], case['codes'], case['arr']
        lead = '0.1,' if fn == 'NPV' else ''
        cells = {'Sheet1!A1': 4, 'Sheet1!A2': 5, 'Sheet1!A3': 6,
                 'Sheet1!B1': 7, 'Sheet1!B2': 8}
        if arr == 'range-scalar':
            cells['Sheet1!A2'] = YIELD[c1]
            f = '=%s(%sA1:A3,%s)' % (fn, lead, c2)
        elif arr == 'scalar-range':
            cells['Sheet1!A2'] = YIELD[c2]
            f = '=%s(%s%s,A1:A3)' % (fn, lead, c1)
        elif arr == 'range-range':
            cells['Sheet1!A1'] = YIELD[c1]
            cells['Sheet1!A3'] = YIELD[c2]
            f = '=%s(%sA1:A3)' % (fn, lead)
        elif arr == 'tworanges':
            cells['Sheet1!A3'] = YIELD[c1]
            cells['Sheet1!B1'] = YIELD[c2]
            f = '=%s(%sA1:A3,2,B1:B2)' % (fn, lead)
        elif arr == 'row-across-z':
            # a row that runs from one-letter into two-letter columns
            cells.update({'Sheet1!Y9': 1, 'Sheet1!Z9': YIELD[c1],
                          'Sheet1!AA9': YIELD[c2], 'Sheet1!AB9': 2})
            f = '=%s(%sY9:AB9)' % (fn, lead)
        elif arr == 'row-across-zz':
            cells.update({'Sheet1!ZY19': 1, 'Sheet1!ZZ18': YIELD[c1],
                          'Sheet1!AAA18': YIELD[c2], 'Sheet1!AAB19': 2})
            f = '=%s(%sZY18:AAB19)' % (fn, lead)
        elif arr == 'block-row-major':
            # in a block the first error in ROW-major order counts
            cells.update({'Sheet1!D5': 1, 'Sheet1!E5': YIELD[c1],
                          'Sheet1!D6': YIELD[c2], 'Sheet1!E6': 2})
            f = '=%s(%sD5:E6)' % (fn, lead)
        else:
            f = '=%s(%s1,%s,2,%s)' % (fn, lead, c1, c2)
        o = lib.eval_formula(f, cells, addr='Sheet1!ZZ9')[0]
        res.labels += (fn, arr)
        if o != E(c1):
            res.fail('agg-leftmost-error:%s' % arr, E(c1), o, f)
        return res
    if k == 'op-types':
        return _op_types(case, res)
    if k == 'chain':
        return _chain(case, res)
    if k == 'is-coexist':
        return _is_coexist(case, res)
    if k == 'is-nested':
        return _is_nested(case, res)
    if k == 'is':
        return _is(case, res)
    if k == 'is-route':
        fn, code, route = case['fn'], case['code'], case['route']
        cells = {'Sheet1!A1': 4, 'Sheet1!A2': YIELD[code], 'Sheet1!A3': 6}
        inner = {'cell': 'A2', 'range-agg': 'SUM(A1:A3)',
                 'agg-cell': 'D4', 'arith-cell': 'D5',
                 'concat-range': 'CONCAT(A1:A3)'}[route]
        cells['Sheet1!D4'] = '=MAX(A1:A3)'
        cells['Sheet1!D5'] = '=A2*2+1'
        f = '=%s(%s)' % (fn, inner)
        o = lib.eval_formula(f, cells, addr='Sheet1!ZZ9')[0]
        want = {'ISERROR': True, 'ISERR': code != '#N/A',
                'ISNA': code == '#N/A'}[fn]
        if o != ('B', want):
            res.fail('inspector-after-route:%s:%s' % (fn, route),
                     ('B', want), o, [f, code])
        return res
    return _tree_case(case, res)


def _op_err(case, res):
    sym, pos, code, other, mode = (case['op'], case['pos'], case['code'],
                                   case['other'], case['mode'])
    err = ['e', code]
    if sym == 'u-':
        if mode == 'call':
            o = _call('OP_NEG', to_lib(err))
            note = ['OP_NEG', code]
        elif mode == 'literal':
            note = '=-%s' % code
            o = lib.eval_formula(note)[0]
        else:
            note = '=-A1'
            o = lib.eval_formula(note, {'Sheet1!A1': YIELD[code]})[0]
        if o != E(code):
            res.fail('op-error:neg:%s' % mode, E(code), o, note)
        return res
    a, b = (err, other) if pos == 0 else (other, err)
    if pos == 1 and other[0] == 's' and _opclass(sym) == 'arith' and \
            R.to_number(other[1]) is not other[1] and \
            not R.is_num(R.to_number(other[1])):
        # the LEFT operand is text that is itself not convertible (it alone
        # yields #VALUE!): which of the two wins is not pinned down
        res.nontrivial = False
        res.labels += ('left-operand-invalid:not-asserted',)
        return res
    if mode == 'call':
        o = _call(BIN[sym], to_lib(a), to_lib(b))
        note = [BIN[sym], a, b]
    elif mode == 'literal':
        la, lb = lit(a), lit(b)
        if la is None or lb is None:
            cells, presets = {}, {}
            note = '=%s%s%s' % ('A1' if la is None else la, sym,
                                'B1' if lb is None else lb)
            o = lib.eval_formula(note, cells)[0]
        else:
            note = '=%s%s%s' % (la, sym, lb)
            o = lib.eval_formula(note)[0]
    else:
        cells, presets = {}, {}
        _place(cells, presets, 'Sheet1!A1', a)
        _place(cells, presets, 'Sheet1!B1', b)
        note = '=A1%sB1' % sym
        o = lib.eval_formula(note, cells, presets=presets)[0]
    if o != E(code):
        b_ = 'op-error:%s:%s:other=%s' % (_opclass(sym), mode,
                                          other[0] if other else '-')
        if o[0] == 'X':
            b_ = 'op-error-exception:%s:%s:%s' % (_opclass(sym), o[1], mode)
        res.fail(b_, E(code), o, note)
    return res


def _argval(v):
    """JSON sample value -> python value for a direct call."""
    return v


def _flit(v):
    if isinstance(v, bool):
        return 'TRUE' if v else 'FALSE'
    if isinstance(v, str):
        return '"' + v.replace('"', '""') + '"'
    if isinstance(v, list):
        return None
    return repr(v) if v >= 0 else '(' + repr(v) + ')'


def _fn_err(case, res):
    xl = lib.lib()
    fn, pos, code, mode = case['fn'], case['pos'], case['code'], case['mode']
    args = list(FT.samples_for(xl, fn)[case['sample']])
    if mode == 'call':
        cargs = list(args)
        cargs[pos] = to_lib(['e', code])
        o = _call(fn, *cargs)
        note = [fn, pos, code]
    else:
        cells = {}
        parts = []
        col = 0
        for i, a in enumerate(args):
            if i == pos and mode == 'cellref':
                # the error comes out of a cell whose formula yields it
                cells['Sheet1!ZY9'] = YIELD[code]
                parts.append('ZY9')
            elif i == pos:
                parts.append(code)
            elif isinstance(a, list):
                # array sample -> range of cells
                from vf.ref.refeval import num_to_col
                h, w = len(a), len(a[0])
                c0 = col
                for r in range(h):
                    for c in range(w):
                        cells['Sheet1!%s%d' % (num_to_col(c0 + c + 1),
                                               r + 1)] = a[r][c]
                parts.append('%s1:%s%d' % (num_to_col(c0 + 1),
                                           num_to_col(c0 + w), h))
                col += w + 1
            else:
                parts.append(_flit(a))
        note = '=%s(%s)' % (fn, ','.join(parts))
        o = lib.eval_formula(note, cells, addr='Sheet1!ZZ9')[0]
    if o != E(code):
        kinds = FT.kinds_of_args(xl, fn, args)
        b_ = 'fn-error:%s:pos%d:%s' % (fn, pos, kinds[pos])
        if o[0] == 'X':
            b_ = 'fn-error-exception:%s:%s:pos%d' % (fn, o[1], pos)
        res.fail(b_, E(code), o, note)
    return res


def _agg_err(case, res):
    fn, where, pos, code = (case['fn'], case['where'], case['pos'],
                            case['code'])
    vals = [4, 5, 6]
    lead = '0.1,' if fn == 'NPV' else ''
    cells = {}
    if where == 'direct':
        # the error is the only/first argument after pos valid ones
        parts = [repr(v) for v in vals[:pos]] + [code]
        if fn == 'SUMPRODUCT':
            parts = [code]
        f = '=%s(%s%s)' % (fn, lead, ','.join(parts))
    elif where == 'variadic':
        parts = [repr(v) for v in vals]
        parts[pos] = code
        if fn == 'SUMPRODUCT':
            parts = ['A1:A3', code]
            cells = {'Sheet1!A1': 1, 'Sheet1!A2': 2, 'Sheet1!A3': 3}
        f = '=%s(%s%s)' % (fn, lead, ','.join(parts))
    else:
        for i, v in enumerate(vals):
            cells['Sheet1!A%d' % (i + 1)] = v
        cells['Sheet1!A%d' % (pos + 1)] = YIELD[code]
        if fn == 'SUMPRODUCT':
            for i, v in enumerate(vals):
                cells['Sheet1!B%d' % (i + 1)] = v
            f = '=SUMPRODUCT(A1:A3,B1:B3)'
        else:
            f = '=%s(%sA1:A3)' % (fn, lead)
    o = lib.eval_formula(f, cells, addr='Sheet1!ZZ9')[0]
    res.labels += (fn, where)
    if o != E(code):
        b_ = 'agg-error:%s:%s' % (fn, where)
        if fn == 'SUMPRODUCT' and o == E('#N/A') and where != 'direct':
            b_ = 'agg-error:SUMPRODUCT:always-#N/A'
        if o[0] == 'X':
            b_ = 'agg-error-exception:%s:%s:%s' % (fn, o[1], where)
        res.fail(b_, E(code), o, f)
    return res


def _op_types(case, res):
    sym, a, b, mode = case['op'], case['a'], case['b'], case['mode']
    if mode == 'call' and 'f' in (a[0], (b or ['x'])[0]):
        return res          # formula operands exist in models only
    if sym == 'u-':
        if mode == 'call':
            o = _call('OP_NEG', to_lib(a))
            note = ['OP_NEG', a]
        else:
            cells, presets = {}, {}
            _place(cells, presets, 'Sheet1!A1', a)
            note = '=-A1'
            o = lib.eval_formula(note, cells, presets=presets)[0]
    elif mode == 'call':
        o = _call(BIN[sym], to_lib(a), to_lib(b))
        note = [BIN[sym], a, b]
    else:
        cells, presets = {}, {}
        _place(cells, presets, 'Sheet1!A1', a)
        _place(cells, presets, 'Sheet1!B1', b)
        note = '=A1%sB1' % sym
        o = lib.eval_formula(note, cells, presets=presets)[0]
    res.nontrivial = b is None or a[0] != b[0]
    if o[0] == 'X':
        res.fail('operator-exception:%s:%s:%s-%s' % (
            _opclass(sym), o[1], a[0], b[0] if b else ''), 'a value or an '
            'Excel error value', o, note)
    elif o[0] == 'E' and o[1] not in ('#VALUE!', '#DIV/0!', '#NUM!'):
        res.fail('operator-odd-error:%s:%s' % (_opclass(sym), o[1]),
                 '#VALUE!, #DIV/0! or #NUM!', o, note)
    elif o[0] in ('?',) or (o[0] == 'N' and not isinstance(o[1], float)):
        res.fail('operator-nonvalue:%s:%s' % (_opclass(sym), o[1]), 'a value',
                 o, note)
    return res


def _chain(case, res):
    code, n = case['code'], case['len']
    xl = lib.lib()
    cells = {'Sheet1!A1': YIELD[code]}
    for i in range(2, n + 1):
        cells['Sheet1!A%d' % i] = '=A%d+1' % (i - 1) if i % 2 == 0 else \
            '=SUM(A%d,1)' % (i - 1)
    try:
        model = lib.compile_dict(cells)
        ev = xl.Evaluator(model)
    except Exception as err:  # noqa: BLE001
        res.fail('chain-compile-exception', 'model', exc_tag(err))
        return res
    last = lib.evaluate(model, 'Sheet1!A%d' % n, ev)
    if last != E(code):
        res.fail('chain:dependant', E(code), last, cells)
    for i in range(1, n + 1):
        try:
            stored = norm(ev.get_cell_value('Sheet1!A%d' % i))
        except Exception as err:  # noqa: BLE001
            stored = exc_tag(err)
        if stored != E(code):
            res.fail('chain:stored-value', E(code), stored, [i, cells])
            break
    return res


# (formula text, kind of its value) over A1 = 1/0, A2 = NA(), A3 = "txt",
# A4 = 7, A5 blank
NESTED = [('ISERROR(A1)', 'b'), ('ISNA(A2)', 'b'), ('ISERR(A4)', 'b'),
          ('ISNUMBER(A4)', 'b'), ('ISTEXT(A3)', 'b'), ('ISBLANK(A5)', 'b'),
          ('IF(FALSE,1)', 'b'), ('A4>3', 'b'), ('AND(TRUE,A4)', 'b'),
          ('NOT(A4)', 'b'), ('EXACT(A3,"txt")', 'b'),
          ('LEN(A3)', 'n'), ('SUM(A4,1)', 'n'), ('ROUND(A4/2,0)', 'n'),
          ('A4*2', 'n'), ('ABS(-A4)', 'n'), ('COUNT(A4:A5)', 'n'),
          # numbers that are numpy scalars inside the library
          ('EXP(1)', 'n'), ('COS(0)', 'n'), ('SIGN(-A4)', 'n'),
          ('LOG10(100)', 'n'), ('RADIANS(180)', 'n'), ('EXP(1)*2+1', 'n'),
          ('SQRT(A4)', 'n'), ('POWER(A4,2)', 'n'), ('A4^0.5', 'n'),
          ('MOD(A4,3)', 'n'), ('PI()', 'n'), ('AVERAGE(A4,1)', 'n'),
          ('MAX(A4,1)', 'n'), ('SUMPRODUCT(A4:A4,A4:A4)', 'n'),
          ('INT(A4/2)', 'n'), ('DATE(2020,1,2)-1', 'n'), ('A6', 'n'),
          ('LEFT(A3,2)', 's'), ('A4&""', 's'), ('UPPER(A3)', 's'),
          ('CONCATENATE(A3,A4)', 's'), ('IF(TRUE,"t",1)', 's'),
          ('A1', 'e:#DIV/0!'), ('A2', 'e:#N/A'), ('A1+1', 'e:#DIV/0!'),
          ('SUM(A2,1)', 'e:#N/A')]


COEXIST = [1, True, 1.0, 0, False, 0.0, '1', 'TRUE', 2, 'x']


def _is_coexist(case, res):
    xl = lib.lib()
    res.nontrivial = True
    res.labels = ('is-coexist',)
    vals = COEXIST[case['rot']:] + COEXIST[:case['rot']]
    if case['rev']:
        vals.reverse()
    d, presets = {}, {}
    for i, v in enumerate(vals):
        a = 'Sheet1!A%d' % (i + 1)
        if isinstance(v, bool):
            d[a] = 987654
            presets[a] = v
        else:
            d[a] = v
        d['Sheet1!B%d' % (i + 1)] = '=ISNUMBER(A%d)' % (i + 1)
        d['Sheet1!C%d' % (i + 1)] = '=ISTEXT(A%d)' % (i + 1)
        d['Sheet1!D%d' % (i + 1)] = '=ISNUMBER(A%d+0)' % (i + 1)
    model = lib.compile_dict(d)
    ev = xl.Evaluator(model)
    for a, v in presets.items():
        ev.set_cell_value(a, v)
    order = list(range(len(vals)))
    order = order[case['erot']:] + order[:case['erot']]
    for i in order:
        v = vals[i]
        isnum = isinstance(v, (int, float)) and not isinstance(v, bool)
        for col, want in (('B', isnum), ('C', isinstance(v, str))):
            o = lib.evaluate(model, 'Sheet1!%s%d' % (col, i + 1), ev)
            if o != ('B', want):
                res.fail('inspector-coexist:%s:%s' % (
                    'ISNUMBER' if col == 'B' else 'ISTEXT',
                    type(v).__name__), ('B', want), o,
                    [vals, order, i + 1])
                return res
        if not isinstance(v, str):
            # a typed operand in arithmetic stays a number / becomes one
            o = lib.evaluate(model, 'Sheet1!D%d' % (i + 1), ev)
            if o != ('B', True):
                res.fail('typed-operand-coexist:%s' % type(v).__name__,
                         ('B', True), o, [vals, order, i + 1])
                return res
    return res


def _is_nested(case, res):
    fn, inner, kind = case['fn'], case['inner'], case['kind']
    res.nontrivial = True
    is_err = kind.startswith('e:')
    if is_err and fn in ('ISNUMBER', 'ISTEXT', 'ISBLANK'):
        res.nontrivial = False      # type of a NON-error value only
        return res
    want = {'ISERROR': is_err, 'ISERR': is_err and kind != 'e:#N/A',
            'ISNA': kind == 'e:#N/A', 'ISNUMBER': kind == 'n',
            'ISTEXT': kind == 's', 'ISBLANK': False}[fn]
    cells = {'Sheet1!A1': '=1/0', 'Sheet1!A2': '=NA()', 'Sheet1!A3': 'txt',
             'Sheet1!A4': 7, 'Sheet1!A6': '=EXP(1)'}
    f = '=%s(%s)' % (fn, inner)
    o = lib.eval_formula(f, cells, addr='Sheet1!Z1')[0]
    if o != ('B', want):
        res.fail('inspector-nested:%s:%s' % (fn, kind[0]), ('B', want), o, f)
    return res


def _is(case, res):
    fn, arg, mode = case['fn'], case['arg'], case['mode']
    if fn == 'NA':
        o = _call('NA') if mode == 'call' else lib.eval_formula('=NA()')[0]
        if o != E('#N/A'):
            res.fail('NA', E('#N/A'), o)
        return res
    t = arg[0]
    is_err = t == 'e'
    want = {'ISERROR': is_err,
            'ISERR': is_err and arg[1] != '#N/A',
            'ISNA': is_err and arg[1] == '#N/A',
            'ISNUMBER': t in ('n', 'd'),
            'ISTEXT': t == 's',
            'ISBLANK': t == 'z'}[fn]
    if is_err and fn in ('ISNUMBER', 'ISTEXT', 'ISBLANK'):
        # 'type of a NON-error value': not asserted for errors
        res.nontrivial = False
        return res
    if fn == 'ISBLANK' and t == 's' and arg[1] == '':
        res.nontrivial = False      # empty text vs blank: not pinned down
        return res
    if fn == 'ISNUMBER' and t == 'd':
        res.nontrivial = False      # date objects: serial numbers in Excel
        return res
    if mode == 'call':
        o = _call(fn, to_lib(arg))
        note = [fn, arg]
        after = None
    else:
        cells, presets = {}, {}
        _place(cells, presets, 'Sheet1!A1', arg)
        note = '=%s(A1)' % fn
        xl = lib.lib()
        d = dict(cells)
        d['Sheet1!B1'] = note
        try:
            model = lib.compile_dict(d)
            ev = xl.Evaluator(model)
            for a_, v in presets.items():
                ev.set_cell_value(a_, v)
            before = lib.evaluate(model, 'Sheet1!A1', ev)
            o = lib.evaluate(model, 'Sheet1!B1', ev)
            after = lib.evaluate(model, 'Sheet1!A1', ev)
        except Exception as err:  # noqa: BLE001
            o = exc_tag(err)
            before = after = None
        if before != after:
            res.fail('inspector-alters-value:%s' % fn, before, after, note)
    if o != ('B', want):
        res.fail('inspector:%s:%s' % (fn, t), ('B', want), o, note)
    return res


def _tree_case(case, res):
    tree = case['tree']
    cells = {'Sheet1!A1': 4, 'Sheet1!B1': 6, 'Sheet1!C1': 0}
    for i, c in enumerate(CODES):
        cells['Sheet1!E%d' % (i + 1)] = YIELD[c]
    rc = dict(cells)
    formulas = {}
    for i, c in enumerate(CODES):
        rc['Sheet1!E%d' % (i + 1)] = R.Err(c)
    env = R.Env(cells=rc, formulas=formulas)
    s = R.tag(R.evaluate(tree, env))
    text = '=' + R.render(tree)
    o = lib.eval_formula(text, cells)[0]
    res.labels += ('S-defined' if s is not None else 'S-abstains',)
    if s is None:
        res.nontrivial = False
        return res
    if s[0] == 'E' and o != s:
        b_ = 'buried-error'
        if o[0] == 'X':
            b_ = 'buried-error-exception:%s:%s' % (o[1], o[2])
        res.fail(b_, s, o, text)
    return res
