"""C18 - date serials and date functions follow the 1900 date system."""
import datetime
import importlib

from vf.core.runner import Result
from vf.core import lib
from vf.core.norm import norm, exc_tag
from vf.gen.decode import decoded
from vf.ref import dates as RD

ID = 'C18'
LEVEL = 'exploration'
EXHAUSTIVE = {'quick': False, 'thorough': True}
RULE = ('thorough: EVERY whole serial 1..2958465 (except 60) through YEAR '
        'MONTH DAY ISOWEEKNUM, WEEKDAY with all ten return types and '
        'omitted, both converters (bijection, monotone) and '
        'DATE(YEAR,MONTH,DAY)=n; quick: serials 1..1500, every '
        'Feb/Mar and Dec/Jan boundary +-2 of the years 1900..9999, all month '
        'boundaries of 60 selected years; sampled (Hypothesis-decoded): '
        'DATE(y,m,d) with y 1900..9999, m -30..40, d -400..800; EDATE/EOMONTH '
        'offsets -1200..1200 from month ends and mid-months; DAYS, date '
        'subtraction, DATEDIF D/M/Y and YEARFRAC bases 0-4 over ordered '
        'pairs of dates (30/360 bases only where no day of month is 29-31, '
        'basis 1 only within one calendar year, to 3 decimals); half and '
        'quarter days through both converters.  Non-trivial = serial within '
        '2 days of a month end, a leap day, serial < 61, or a carry in DATE; '
        'distinct by (function, arguments).')
ASSUMPTIONS = [
    'reference: datetime.date arithmetic (vf/ref/dates.py)',
    'WEEKDAY/ISOWEEKNUM asserted for serials >= 61 only; serial 60 (the '
    'fictitious 1900-02-29) and DATE results that would have to cross it '
    'are not generated; two-digit years are not generated',
    'YEARFRAC basis 1 is asserted within one calendar year (a leap year '
    'only when the period holds its 29th of February) and not across '
    'several calendar years '
    '(methods differ; the documentation promises three decimals only)',
]
CASE_LIMIT_S = 30

WTYPES = [None, 1, 2, 3, 11, 12, 13, 14, 15, 16, 17]
_utils = None


def utils():
    global _utils
    if _utils is None:
        lib.lib()
        _utils = importlib.import_module('xlcalculator.xlfunctions.utils')
    return _utils


def enumerate_cases(tier, shard=0, nshards=1):
    if tier == 'thorough':
        for n in range(1 + shard, RD.MAXSERIAL + 1, nshards):
            if n != 60:
                yield {'k': 'serial', 'n': n}
        return
    seen = set()

    def emit(n):
        if 1 <= n <= RD.MAXSERIAL and n != 60 and n not in seen:
            seen.add(n)
            return True
        return False
    i = 0
    for n in range(1, 1501):
        i += 1
        if i % nshards == shard and emit(n):
            yield {'k': 'serial', 'n': n}
    special = set(list(range(1900, 1911)) + list(range(1996, 2031)) +
                  [2100, 2200, 2400, 3000] + list(range(9990, 10000)))
    for y in range(1900, 10000):
        months = range(1, 13) if y in special else (1, 3)
        for m in months:
            first = RD.to_serial(datetime.date(y, m, 1))
            for n in range(first - 2, first + 3):
                i += 1
                if i % nshards == shard and emit(n):
                    yield {'k': 'serial', 'n': n}
    for n in range(RD.MAXSERIAL - 400, RD.MAXSERIAL + 1):
        i += 1
        if i % nshards == shard and emit(n):
            yield {'k': 'serial', 'n': n}
    # YEARFRAC basis 1 around the leap day of one leap year
    for y in (1904, 2000, 2012, 2024, 2096, 2400):
        for m1, d1 in ((1, 1), (2, 1), (2, 28), (2, 29)):
            for m2, d2 in ((3, 1), (6, 30), (12, 31)):
                for rev in (False, True):
                    i += 1
                    if i % nshards == shard:
                        yield {'k': 'pair', 'f': 'YEARFRAC:1', 'rev': rev,
                               'a': RD.to_serial(datetime.date(y, m1, d1)),
                               'b': RD.to_serial(datetime.date(y, m2, d2)),
                               'mode': 'call', 'ak': 'serial', 'lc': False}


def _serial(d):
    k = d.pick(6)
    if k == 0:
        return d.int(61, 800)
    if k == 1:
        return d.int(RD.MAXSERIAL - 5000, RD.MAXSERIAL)
    if k == 2:
        # a month end
        y, m = d.int(1900, 2200), d.int(1, 12)
        if y == 1900 and m < 3:
            m = 3
        return RD.to_serial(datetime.date(y, m, RD.days_in_month(y, m)))
    return d.int(30000, 60000) if k < 5 else d.int(61, RD.MAXSERIAL)


def _build(d):
    k = d.pick(8)
    if k == 0:
        return {'k': 'serial', 'n': _serial(d)}
    if k in (1, 2):
        y = d.choice([1900, 1900, 1901, 1999, 2000, 2020, 2024, 2100, 9998,
                      9999]) if d.pick(2) else d.int(1900, 9999)
        m = d.int(-30, 40) if d.pick(2) else d.int(1, 12)
        dd = d.int(-400, 800) if d.pick(2) else d.int(1, 31)
        return {'k': 'DATE', 'y': y, 'm': m, 'd': dd}
    if k == 3:
        return {'k': d.choice(['EDATE', 'EOMONTH']), 'n': _serial(d),
                'months': d.int(-1200, 1200) if d.pick(3) else d.int(-13, 13),
                # a month offset that is not whole is truncated (toward
                # zero), whether literal, a percentage or a quotient
                'frac': d.choice([0, 0, 0, 0.5, 0.25, 0.9]),
                'how': d.choice(['call', 'literal', 'percent', 'quotient'])}
    if k == 4:
        n = d.int(61, 100000)
        return {'k': 'time', 'n': n, 'q': d.choice([0.5, 0.25, 0.75])}
    a, b = _serial(d), _serial(d)
    if d.pick(2):
        b = a + d.int(0, 800)
        b = min(b, RD.MAXSERIAL)
    if d.pick(12) == 0:
        # the two dates on either side of the fictitious 1900-02-29 (serial
        # 60): DAYS is the difference of the SERIALS
        return {'k': 'pair', 'a': d.int(1, 59), 'b': d.choice(
            [61, 62, 100, 366, d.int(61, 60000)]), 'f': 'DAYS',
            'mode': 'formula' if d.pick(2) else 'call', 'ak': 'serial',
            'lc': False, 'rev': False}
    a, b = min(a, b), max(a, b)
    if b - a > 60000:
        b = a + (b - a) % 60000
    return {'k': 'pair', 'a': a, 'b': b,
            'f': d.choice(['DAYS', 'SUB', 'DATEDIF:D', 'DATEDIF:M',
                           'DATEDIF:Y', 'YEARFRAC:0', 'YEARFRAC:1',
                           'YEARFRAC:2', 'YEARFRAC:3', 'YEARFRAC:4',
                           'DATEDIF:rev']),
            'mode': 'formula' if d.pick(4) == 0 else 'call',
            # KIND of the date arguments (formula mode): serial literal,
            # DATE(y,m,d) result, a cell holding the serial, a cell holding
            # =DATE(y,m,d); DATEDIF unit in lower case / from a cell
            'ak': d.choice(['serial', 'serial', 'date', 'cell', 'datecell',
                            'isotext']),
            'lc': d.pick(3) == 0,
            # YEARFRAC with the later date first (the function is symmetric:
            # it exchanges its dates when start > end)
            'rev': d.pick(3) == 0}


def strategy(tier):
    return decoded(_build, min_size=16, max_size=40)


def budget(tier):
    return 40000 if tier == 'quick' else 1500000


def N(x):
    return ('N', float(x))


def judge(case):
    res = Result()
    k = case['k']
    if k == 'serial':
        return _serial_case(case['n'], res)
    if k == 'DATE':
        return _date_case(case, res)
    if k in ('EDATE', 'EOMONTH'):
        return _edate_case(case, res)
    if k == 'time':
        return _time_case(case, res)
    return _pair_case(case, res)


def _serial_case(n, res):
    d = RD.to_date(n)
    u = utils()
    edge = (d.day <= 2 or d.day >= RD.days_in_month(d.year, d.month) - 1
            or (d.month == 2 and d.day == 29) or n < 61)
    res.nontrivial = edge
    res.labels = ('serial', 'lt61' if n < 61 else 'ge61')
    era = 'lt61' if n < 61 else 'ge61'
    # converters: n -> date -> n, and calendar date
    try:
        dt = u.number_to_datetime(n)
        got = (dt.year, dt.month, dt.day)
    except Exception as err:  # noqa: BLE001
        res.fail('converter-exception:%s' % era, str(d), exc_tag(err), n)
        return res
    if got != (d.year, d.month, d.day):
        res.fail('number_to_datetime:%s' % era, str(d), list(got), n)
    try:
        back = u.datetime_to_number(
            datetime.datetime(d.year, d.month, d.day))
    except Exception as err:  # noqa: BLE001
        back = exc_tag(err)
    if back != n:
        res.fail('datetime_to_number:%s' % era, n, back, str(d))
    for fn, want in (('YEAR', d.year), ('MONTH', d.month), ('DAY', d.day)):
        o = lib.call_fn(fn, n)
        if o != N(want):
            res.fail('%s:%s' % (fn, era), N(want), o, n)
    if n >= 61:
        o = lib.call_fn('ISOWEEKNUM', n)
        if o != N(d.isocalendar()[1]):
            res.fail('ISOWEEKNUM', N(d.isocalendar()[1]), o, n)
        for t in WTYPES:
            o = lib.call_fn('WEEKDAY', n) if t is None else \
                lib.call_fn('WEEKDAY', n, t)
            if o != N(RD.weekday(d, t)):
                res.fail('WEEKDAY:type%s' % t, N(RD.weekday(d, t)), o, n)
    # DATE(YEAR(n), MONTH(n), DAY(n)) = n
    o = lib.call_fn('DATE', d.year, d.month, d.day)
    if not (o[0] == 'D' and _dt_serial(o) == n):
        res.fail('DATE-roundtrip:%s%s' % (
            era, ':y9999' if d.year == 9999 else ''), n, o, str(d))
    return res


def _dt_serial(tag):
    """('D', iso) -> reference serial of that calendar date (whole days)."""
    dt = datetime.datetime.fromisoformat(tag[1])
    if (dt.hour, dt.minute, dt.second, dt.microsecond) != (0, 0, 0, 0):
        return None
    return RD.to_serial(dt.date())


def _as_serial(tag):
    if tag[0] == 'D':
        return _dt_serial(tag)
    if tag[0] == 'N' and isinstance(tag[1], float):
        return tag[1]
    return None


def _date_case(case, res):
    y, m, dd = case['y'], case['m'], case['d']
    exp = RD.date_fn(y, m, dd)
    carry = not (1 <= m <= 12 and 1 <= dd <= 28)
    res.nontrivial = carry
    res.labels = ('DATE', 'carry' if carry else 'plain')
    # anything that starts in Jan/Feb 1900 and leaves Feb 28 would have to
    # cross the fictitious leap day: not asserted
    start_t = y * 12 + (m - 1)
    if exp is not None and start_t <= 1900 * 12 + 1 and \
            exp > datetime.date(1900, 2, 28):
        res.labels += ('crosses-1900-02-29:not-asserted',)
        return res
    o = lib.call_fn('DATE', y, m, dd)
    if exp is None or exp < datetime.date(1900, 1, 1):
        if o[0] != 'E':
            res.fail('DATE:missing-error', 'error', o, [y, m, dd])
        return res
    want = RD.to_serial(exp)
    got = _as_serial(o)
    if got != want:
        cls = ('y9999' if y == 9999 else 'first-day' if want == 1 else
               'lt61' if want < 61 else 'carry' if carry else 'plain')
        res.fail('DATE:%s' % cls, want, o, [y, m, dd])
    return res


def _edate_case(case, res):
    fn, n, k = case['k'], case['n'], case['months']
    d = RD.to_date(n)
    exp = RD.add_months(d, k) if fn == 'EDATE' else RD.eomonth(d, k)
    res.labels = (fn,)
    res.nontrivial = d.day >= 28 or abs(k) >= 12
    frac = case.get('frac') or 0
    if frac:
        # k keeps its whole part: -3 -> -3.5 (truncates to -3)
        kf = k + frac if k >= 0 else k - frac
        how = case.get('how', 'call')
        res.labels += ('fractional-offset:' + how,)
        if how == 'call':
            o = lib.call_fn(fn, n, kf)
        else:
            txt = {'literal': repr(kf), 'percent': '%r%%' % (kf * 100),
                   'quotient': '(%r/4)' % (kf * 4)}[how]
            o = lib.eval_formula('=%s(%d,%s)' % (fn, n, txt))[0]
    else:
        o = lib.call_fn(fn, n, k)
    if exp is None or exp < datetime.date(1900, 1, 1):
        if exp is not None and o[0] != 'E':
            res.fail('%s:missing-error' % fn, 'error', o, [n, k])
        return res
    if exp < datetime.date(1900, 3, 1):
        return res
    want = RD.to_serial(exp)
    if _as_serial(o) != want:
        res.fail('%s:%s' % (fn, 'month-end' if d.day >= 28 else 'mid'),
                 want, o, [n, k])
    return res


def _time_case(case, res):
    n, q = case['n'], case['q']
    u = utils()
    d = RD.to_date(n)
    res.nontrivial = True
    res.labels = ('time-of-day',)
    secs = int(q * 86400)
    want_dt = datetime.datetime(d.year, d.month, d.day) + \
        datetime.timedelta(seconds=secs)
    try:
        got = u.number_to_datetime(n + q)
    except Exception as err:  # noqa: BLE001
        got = exc_tag(err)
    if got != want_dt:
        res.fail('time-of-day:number_to_datetime', str(want_dt), str(got),
                 n + q)
    try:
        back = u.datetime_to_number(want_dt)
    except Exception as err:  # noqa: BLE001
        back = exc_tag(err)
    if back != n + q:
        res.fail('time-of-day:datetime_to_number', n + q, back,
                 str(want_dt))
    return res


def _pair_case(case, res):
    a, b, f, mode = case['a'], case['b'], case['f'], case['mode']
    da, db = RD.to_date(a), RD.to_date(b)
    days = b - a
    res.labels = (f.split(':')[0], mode)
    res.nontrivial = a != b
    tol = 0.0

    ak = case.get('ak', 'serial') if a >= 61 else 'serial'
    if ak != 'serial' and f != 'SUB':
        mode = 'formula'
        res.labels = (f.split(':')[0], mode, 'args:' + ak)

    def run(fn, *args):
        if fn == 'DATEDIF' and case.get('lc'):
            args = args[:2] + (args[2].lower(),)
        if ak == 'isotext':
            # the dates as ISO 8601 TEXT ("2020-03-05"), which the library
            # reads as dates; unambiguous for every parser
            args = tuple(RD.to_date(x).isoformat() if i < 2 and not
                         isinstance(x, str) and x >= 61 else x
                         for i, x in enumerate(args))
            if mode == 'call' or True:
                text = '=%s(%s)' % (fn, ','.join(
                    '"%s"' % x if isinstance(x, str) else str(x)
                    for x in args))
                if case['mode'] == 'call':
                    return lib.call_fn(fn, *args), [fn] + list(args)
                return lib.eval_formula(text)[0], text
        if mode == 'call':
            return lib.call_fn(fn, *args), [fn] + list(args)
        cells = {}
        sp = []
        for i, x in enumerate(args):
            if isinstance(x, str):
                if ak in ('cell', 'datecell'):
                    cells['Sheet1!C%d' % (i + 1)] = x
                    sp.append('C%d' % (i + 1))
                else:
                    sp.append('"%s"' % x)
            elif ak == 'serial' or i > 1 or x < 61:
                sp.append(str(x))
            else:
                dx = RD.to_date(x)
                dtxt = 'DATE(%d,%d,%d)' % (dx.year, dx.month, dx.day)
                if ak == 'date':
                    sp.append(dtxt)
                else:
                    cells['Sheet1!B%d' % (i + 1)] = (
                        x if ak == 'cell' else '=' + dtxt)
                    sp.append('B%d' % (i + 1))
        text = '=%s(%s)' % (fn, ','.join(sp))
        out = lib.eval_formula(text, cells or None, addr='Sheet1!Z1')[0]
        if out[0] == 'N' and len(sp) >= 2 and sp[0][:1] == 'B' \
                and sp[1][:1] == 'B':
            # the function must leave its ARGUMENTS alone: read the two date
            # cells again in the same formula, after the call
            t2 = '=%s(%s)*0+(%s-%s)' % (fn, ','.join(sp), sp[1], sp[0])
            o2 = lib.eval_formula(t2, cells, addr='Sheet1!Z1')[0]
            w2 = N(args[1] - args[0])
            if o2 != w2:
                res.fail('arguments-changed-by-call:%s' % fn, w2, o2,
                         [t2, cells])
        return out, [text, cells]
    if f == 'DAYS':
        o, note = run('DAYS', b, a)
        want = N(days)
    elif f == 'SUB':
        text = '=DATE(%d,%d,%d)-DATE(%d,%d,%d)' % (
            db.year, db.month, db.day, da.year, da.month, da.day)
        o, note = lib.eval_formula(text)[0], text
        want = N(days)
    elif f == 'DATEDIF:rev':
        if a == b:
            return res
        o, note = run('DATEDIF', b, a, 'D')
        if o[0] != 'E':
            res.fail('DATEDIF:start-after-end', 'error', o, note)
        return res
    elif f.startswith('DATEDIF'):
        unit = f[-1]
        o, note = run('DATEDIF', a, b, unit)
        want = N({'D': days, 'M': RD.complete_months(da, db),
                  'Y': RD.complete_years(da, db)}[unit])
    else:
        basis = int(f[-1])
        if basis in (0, 4):
            # US and European 30/360 differ on days 29-31 and on the last
            # day of February: only compared where they coincide
            if da.day >= 29 or db.day >= 29 or any(
                    x.month == 2 and x.day == RD.days_in_month(x.year, 2)
                    for x in (da, db)):
                res.labels += ('30/360-month-end:not-asserted',)
                return res
            want = N(RD.days360(da, db) / 360.0)
        elif basis == 1:
            # actual/actual methods (Excel's, AFB, ISDA) agree where both
            # dates lie in one non-leap year: days/365
            import calendar
            leap = calendar.isleap(da.year)
            if da.year == db.year and leap and da <= datetime.date(
                    da.year, 2, 29) < db:
                # ... and where the period holds the 29th of February of
                # the one leap year both dates lie in (the start date
                # counts, the end date does not): days/366
                want = N(days / 366.0)
                res.labels += ('actual/actual:leap-day-inside',)
            elif da.year != db.year or leap:
                res.labels += ('actual/actual-ambiguous:not-asserted',)
                return res
            else:
                want = N(days / 365.0)
            tol = 5e-4
        elif basis == 2:
            want = N(days / 360.0)
        else:
            want = N(days / 365.0)
        tol = max(tol, 1e-12)
        if case.get('rev'):
            o, note = run('YEARFRAC', b, a, basis)
            res.labels += ('later-date-first',)
        else:
            o, note = run('YEARFRAC', a, b, basis)
    ok = o == want or (o[0] == 'N' and isinstance(o[1], float)
                       and abs(o[1] - want[1]) <= tol)
    if not ok:
        cls = f
        if f.startswith('DATEDIF') and da.day > 28:
            cls += ':start-day>28'
        res.fail('%s:%s' % (cls, 'exc' if o[0] == 'X' else 'value'), want, o,
                 note)
    return res
