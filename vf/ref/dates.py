"""Reference for C18: Excel's 1900 date system on datetime.date."""
import datetime

MAXSERIAL = 2958465
D0 = datetime.date(1899, 12, 30)
D0_EARLY = datetime.date(1899, 12, 31)


def to_date(n):
    """whole serial -> date (60, the fictitious 1900-02-29, has none)."""
    if n >= 61:
        return D0 + datetime.timedelta(days=n)
    if 1 <= n <= 59:
        return D0_EARLY + datetime.timedelta(days=n)
    raise ValueError(n)


def to_serial(d):
    if d >= datetime.date(1900, 3, 1):
        return (d - D0).days
    return (d - D0_EARLY).days


def weekday(d, rtype=None):
    wd = d.weekday()            # Monday = 0
    if rtype in (None, 1, 17):
        return (wd + 1) % 7 + 1  # Sunday = 1
    if rtype in (2, 11):
        return wd + 1
    if rtype == 3:
        return wd
    if 12 <= rtype <= 16:
        return (wd - (rtype - 11)) % 7 + 1
    raise ValueError(rtype)


def days_in_month(y, m):
    if m == 12:
        return 31
    return (datetime.date(y, m + 1, 1) - datetime.date(y, m, 1)).days


def add_months(d, k):
    t = d.year * 12 + (d.month - 1) + k
    y, m = divmod(t, 12)
    m += 1
    if not (1 <= y <= 9999):
        return None
    return datetime.date(y, m, min(d.day, days_in_month(y, m)))


def eomonth(d, k):
    x = add_months(d.replace(day=1), k)
    if x is None:
        return None
    return x.replace(day=days_in_month(x.year, x.month))


def date_fn(y, m, d):
    """DATE(y, m, d) with carries -> date, or None when out of range."""
    t = y * 12 + (m - 1)
    yy, mm = divmod(t, 12)
    mm += 1
    if not (1 <= yy <= 9999):
        return None
    try:
        return datetime.date(yy, mm, 1) + datetime.timedelta(days=d - 1)
    except OverflowError:
        return None


def complete_months(a, b):
    n = (b.year - a.year) * 12 + (b.month - a.month)
    if b.day < a.day:
        n -= 1
    return n


def complete_years(a, b):
    n = b.year - a.year
    if (b.month, b.day) < (a.month, a.day):
        n -= 1
    return n


def days360(a, b):
    return (360 * (b.year - a.year) + 30 * (b.month - a.month)
            + (b.day - a.day))
