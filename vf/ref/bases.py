"""Reference for C19: 10-digit two's-complement base conversion on int."""
BASE = {'BIN': 2, 'OCT': 8, 'HEX': 16}
BITS = {'BIN': 10, 'OCT': 30, 'HEX': 40}
DIGITS = {'BIN': '01', 'OCT': '01234567', 'HEX': '0123456789ABCDEF'}
FUNCS = [s + '2' + d for s in ('DEC', 'BIN', 'OCT', 'HEX')
         for d in ('DEC', 'BIN', 'OCT', 'HEX') if s != d]
NUM = ('E', '#NUM!')
VALUE = ('E', '#VALUE!')


def window(base):
    """Representable window of a base (DEC: unbounded here)."""
    if base == 'DEC':
        return None
    b = BITS[base]
    return (-(1 << (b - 1)), (1 << (b - 1)) - 1)


def digits_of(base, v):
    """Reference digit string of integer v in base (10 digits if v<0)."""
    if v < 0:
        v += 1 << BITS[base]
    return format(v, {'BIN': 'b', 'OCT': 'o', 'HEX': 'X'}[base])


def parse_digits(base, s):
    """digit string -> int, or None when invalid."""
    if len(s) == 0 or len(s) > 10:
        return None
    # validate the characters AS WRITTEN (ASCII digits and letters in either
    # case): str.upper() alone would turn the ligature U+FB00 into 'FF'
    if any(c not in DIGITS[base] and c not in DIGITS[base].lower()
           for c in s):
        return None
    up = s.upper()
    v = int(up, BASE[base])
    if len(up) == 10 and v >= 1 << (BITS[base] - 1):
        v -= 1 << BITS[base]
    return v


def convert(fn, arg, places=None, arg_is_bool=False, places_is_bool=False):
    """Expected normalised result of fn(arg[, places]).

    arg: int for DEC2x, digit string for the others.
    """
    src, dst = fn.split('2')
    if arg_is_bool or places_is_bool:
        return VALUE
    if src == 'DEC':
        v = arg
    else:
        v = parse_digits(src, arg)
        if v is None:
            return NUM
    lo, hi = None, None
    for b in (src, dst):
        w = window(b)
        if w is not None:
            lo = w[0] if lo is None else max(lo, w[0])
            hi = w[1] if hi is None else min(hi, w[1])
    if not (lo <= v <= hi):
        return NUM
    if dst == 'DEC':
        return ('N', float(v))
    if places is not None and not (1 <= places <= 10):
        return NUM
    out = digits_of(dst, v)
    if v >= 0 and places is not None:
        if len(out) > places:
            return NUM
        out = out.zfill(places)
    return ('T', out)
