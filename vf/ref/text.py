"""Reference for C17: 1-based string semantics on Python str.
Returns str / int / bool, or ERR for 'an error value'."""
ERR = 'ERR'


def as_text(v):
    if isinstance(v, bool):
        return 'TRUE' if v else 'FALSE'
    if isinstance(v, int):
        return str(v)
    if isinstance(v, float):
        # whole numbers have no decimal point; other floats are only passed
        # where repr() and Excel agree (short decimals)
        return str(int(v)) if v.is_integer() else repr(v)
    return v


def LEN(s):
    return len(as_text(s))


def LEFT(s, n=1):
    s = as_text(s)
    if n < 0:
        return ERR
    return s[:n]


def RIGHT(s, n=1):
    s = as_text(s)
    if n < 0:
        return ERR
    if n == 0:
        return ''
    return s[-n:] if n < len(s) else s


def MID(s, p, k):
    s = as_text(s)
    if p < 1 or k < 0:
        return ERR
    return s[p - 1:p - 1 + k]


def FIND(t, s, p=1):
    t, s = as_text(t), as_text(s)
    if p < 1:
        return ERR
    i = s.find(t, p - 1)
    if i < 0 or p - 1 > len(s):
        return ERR
    return i + 1


def REPLACE(s, p, k, t):
    s, t = as_text(s), as_text(t)
    if p < 1 or k < 0:
        return ERR
    return s[:p - 1] + t + s[p - 1 + k:]


def TRIM(s):
    return ' '.join(w for w in as_text(s).split(' ') if w)


def EXACT(a, b):
    return as_text(a) == as_text(b)


def UPPER(s):
    return as_text(s).upper()


def LOWER(s):
    return as_text(s).lower()


def CONCAT(*a):
    return ''.join(as_text(x) for x in a)


CONCATENATE = CONCAT
FUNCS = {k: v for k, v in globals().items() if k.isupper() and callable(v)}
