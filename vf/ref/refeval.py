"""Reference evaluator for the generators' own formula trees.

Independent of the library (never imports it).  Values are Python natives:
int/float numbers, str text, bool, None (blank), Err(code).  UNDEF marks a
result the properties do not pin down (DESIGN section 5): the semantic oracle
abstains there.

Tree nodes (JSON lists):
  ["num", text]            literal as written: "3", "2.5", "5%", "1E3", "1.5e-2"
  ["str", s] ["bool", b] ["err", code]
  ["ref", "A1" | "Sheet2!A1"]      (value looked up in env.cell(sheet, addr))
  ["range", "A1:B2"]
  ["neg", x]  ["pos", x]  ["par", x]
  ["op", sym, l, r]
  ["call", NAME, [args...]]
"""
import math


class Err:
    __slots__ = ('code',)

    def __init__(self, code):
        self.code = code

    def __eq__(self, other):
        return isinstance(other, Err) and other.code == self.code

    def __hash__(self):
        return hash(('Err', self.code))

    def __repr__(self):
        return 'Err(%s)' % self.code


class _Undef:
    def __repr__(self):
        return 'UNDEF'


UNDEF = _Undef()
BIG = [0]      # counts trips of the big-power guard
DIV0 = Err('#DIV/0!')
VALUE = Err('#VALUE!')
NUM = Err('#NUM!')
NA = Err('#N/A')
NAME = Err('#NAME?')

PREC = {'^': 5, '*': 4, '/': 4, '+': 3, '-': 3, '&': 2,
        '=': 1, '<>': 1, '<': 1, '>': 1, '<=': 1, '>=': 1}
BINOPS = list(PREC)


def tag(v):
    """native reference value -> normalised tag (vf.core.norm format)."""
    if v is UNDEF:
        return None
    if isinstance(v, Err):
        return ('E', v.code)
    if v is None:
        return ('Z',)
    if isinstance(v, bool):
        return ('B', v)
    if isinstance(v, (int, float)):
        try:
            f = float(v)
        except OverflowError:
            return None
        if math.isnan(f) or math.isinf(f):
            return None
        return ('N', f)
    if isinstance(v, str):
        return ('T', v)
    if isinstance(v, list):
        return ('A', [[tag(c) for c in row] for row in v])
    raise TypeError(v)


def is_num(v):
    return isinstance(v, (int, float)) and not isinstance(v, bool)


def literal_value(text):
    """Numeric literal as written -> int/float."""
    if text.endswith('%'):
        return float(text[:-1]) / 100
    try:
        return int(text)
    except ValueError:
        return float(text)


def to_number(v):
    """Arithmetic coercion (C08): number, boolean->0/1, blank->0, numeric
    text -> number; other text -> #VALUE!; UNDEF where not pinned down."""
    if v is UNDEF or isinstance(v, Err):
        return v
    if isinstance(v, bool):
        return int(v)
    if v is None:
        return 0
    if is_num(v):
        return v
    if isinstance(v, str):
        s = v
        if '_' in s or s.strip().lower().lstrip('+-') in (
                'inf', 'infinity', 'nan'):
            # Python's float()/int() read these; no spreadsheet does
            return VALUE
        try:
            return int(s)
        except ValueError:
            pass
        try:
            f = float(s)
            if math.isnan(f) or math.isinf(f):
                return UNDEF
            return f
        except ValueError:
            pass
        if any(ch.isdigit() for ch in s) or s.strip().lower() in (
                'true', 'false') or s.strip() == '':
            # might be read as a date/boolean by the library, or by Excel:
            # not pinned down
            return UNDEF
        if _maybe_date_text(s):
            return UNDEF
        return VALUE
    return UNDEF


_MONTHS = ('jan', 'feb', 'mar', 'apr', 'may', 'jun', 'jul', 'aug', 'sep',
           'oct', 'nov', 'dec', 'mon', 'tue', 'wed', 'thu', 'fri', 'sat',
           'sun', 'am', 'pm', 'today', 'now', 'utc', 'gmt', 'est', 'z')


def _maybe_date_text(s):
    low = s.lower()
    return any(m in low for m in _MONTHS) or len(low) <= 1


def num_text(x):
    """Text form of a number where Python's and Excel's agree, else UNDEF."""
    if isinstance(x, bool):
        return UNDEF
    if isinstance(x, int):
        if abs(x) >= 10 ** 15:
            return UNDEF
        return str(x)
    if x != x or x in (float('inf'), float('-inf')):
        return UNDEF
    if x == int(x):
        # a whole number held as a float: no decimal point ("3", not "3.0")
        return str(int(x)) if abs(x) < 1e15 else UNDEF
    if not (1e-4 <= abs(x) < 1e15):
        return UNDEF
    r = repr(x)
    if 'e' in r or 'E' in r:
        return UNDEF
    if len(r.replace('-', '').replace('.', '').lstrip('0')) > 15:
        return UNDEF
    return r


def to_text(v):
    if v is UNDEF or isinstance(v, Err):
        return v
    if isinstance(v, str):
        return v
    if v is None:
        return ''
    if isinstance(v, bool):
        return UNDEF        # "TRUE" vs "True": casing not pinned down
    return num_text(v)


def order_key(v):
    """Total order of C09 on non-blank scalars."""
    if isinstance(v, bool):
        return (2, int(v))
    if is_num(v):
        return (0, v)
    if isinstance(v, str):
        return (1, v.upper())
    raise TypeError(v)


def compare(sym, a, b):
    for x in (a, b):
        if x is UNDEF or isinstance(x, Err):
            return x
    if a is None or b is None:
        # blank: only the listed equalities are pinned down
        if a is None and b is None:
            eq = True
        else:
            o = b if a is None else a
            if o == 0 and not isinstance(o, bool) or o == '' or o is False:
                eq = True
            else:
                return UNDEF
        if sym in ('=', '<=', '>='):
            return eq if sym == '=' else UNDEF
        if sym == '<>':
            return not eq
        return UNDEF
    if isinstance(a, str) and isinstance(b, str):
        if not (_plain_text(a) and _plain_text(b)):
            if sym in ('=', '<>') and a.upper() == b.upper():
                return sym == '='
            return UNDEF
    ka, kb = order_key(a), order_key(b)
    return {'=': ka == kb, '<>': ka != kb, '<': ka < kb, '>': ka > kb,
            '<=': ka <= kb, '>=': ka >= kb}[sym]


def _plain_text(s):
    """Texts whose case-insensitive order is unambiguous (ASCII letters,
    digits, blank): collation of punctuation / non-ASCII is not pinned
    down by the properties."""
    return all(c.isascii() and (c.isalnum() or c == ' ') for c in s)


def arith(sym, a, b):
    for x in (a, b):
        if isinstance(x, Err):
            return x
    if a is UNDEF or b is UNDEF:
        # an error on the right still does not decide: left is unknown
        return UNDEF
    a, b = to_number(a), to_number(b)
    for x in (a, b):
        if isinstance(x, Err):
            return x
    if a is UNDEF or b is UNDEF:
        return UNDEF
    for x in (a, b):
        if isinstance(x, int) and abs(x) > 2 ** 1023:
            # exact integers BEYOND the double range: Excel has none, the
            # library keeps some; not pinned down.  (Those of the top
            # binade, 2^1023 .. 1.797e308, are ordinary numbers.)
            try:
                float(x)
            except OverflowError:
                return UNDEF
    try:
        if sym in ('+', '-', '*'):
            r = a + b if sym == '+' else a - b if sym == '-' else a * b
            if isinstance(r, int) and abs(r) > 2 ** 1023:
                try:
                    float(r)
                except OverflowError:
                    # a whole result no double can hold (fix 6a57518)
                    return NUM if max(abs(a), abs(b)) > 2 ** 1023 else r
            return r
        if sym == '/':
            if b == 0:
                return DIV0
            return a / b
        if sym == '^':
            return power(a, b)
    except OverflowError:
        return UNDEF
    raise ValueError(sym)


def power(a, b):
    if a == 0 and b <= 0:
        return UNDEF            # 0^0, 0^-1: not asserted here (C16 owns it)
    if a < 0 and b != int(b):
        return UNDEF
    if isinstance(a, int) and isinstance(b, int) and b > 0 and abs(a) > 1 \
            and b * math.log2(abs(a)) >= 1024:
        # beyond the range of a double: #NUM! (the count still tells the
        # generators how many such towers they produced)
        BIG[0] += 1
        return NUM
    # keep big towers bounded
    if a not in (0, 1, -1) and abs(b) * math.log2(abs(a) if a else 1) > 20000:
        BIG[0] += 1
        return UNDEF
    if isinstance(a, int) and isinstance(b, int) and b >= 0:
        return a ** b
    try:
        r = float(a) ** float(b)
    except OverflowError:
        return NUM
    except ZeroDivisionError:
        return UNDEF
    if isinstance(r, complex):
        return UNDEF
    return r


def concat(a, b):
    for x in (a, b):
        if isinstance(x, Err):
            return x
    if a is UNDEF or b is UNDEF:
        return UNDEF
    ta, tb = to_text(a), to_text(b)
    if ta is UNDEF or tb is UNDEF:
        return UNDEF
    return ta + tb


def binop(sym, a, b):
    # leftmost error wins for every operator (C07)
    if isinstance(a, Err):
        return a
    if a is UNDEF:
        return UNDEF
    if isinstance(b, Err):
        return b
    if sym in ('+', '-', '*', '/', '^'):
        return arith(sym, a, b)
    if sym == '&':
        return concat(a, b)
    return compare(sym, a, b)


def negate(a):
    if isinstance(a, Err) or a is UNDEF:
        return a
    n = to_number(a)
    if isinstance(n, Err) or n is UNDEF:
        return n
    return -n


class Env:
    """Cell lookup: cells = {'Sheet1!A1': native value or tree for formulas}.
    formulas: {'Sheet1!A1': tree}."""

    def __init__(self, cells=None, formulas=None, sheet='Sheet1',
                 funcs=None):
        self.cells = cells or {}
        self.formulas = formulas or {}
        self.sheet = sheet
        self.funcs = funcs or {}
        self._stack = []

    def full(self, addr, sheet):
        addr = addr.replace('$', '')
        if '!' in addr:
            sh, a = addr.rsplit('!', 1)
            if sh.startswith("'") and sh.endswith("'"):
                sh = sh[1:-1].replace("''", "'")
            return sh + '!' + a
        return sheet + '!' + addr

    def cell(self, addr, sheet):
        full = self.full(addr, sheet)
        if full in self.formulas:
            if full in self._stack:
                raise RecursionError('cycle')
            self._stack.append(full)
            try:
                return evaluate(self.formulas[full], self,
                                full.rsplit('!', 1)[0])
            finally:
                self._stack.pop()
        return self.cells.get(full)


def col_to_num(col):
    n = 0
    for ch in col:
        n = n * 26 + (ord(ch) - 64)
    return n


def num_to_col(n):
    s = ''
    while n > 0:
        n, r = divmod(n - 1, 26)
        s = chr(65 + r) + s
    return s


def split_a1(a1):
    a1 = a1.replace('$', '')
    i = 0
    while i < len(a1) and a1[i].isalpha():
        i += 1
    return a1[:i].upper(), int(a1[i:])


def range_cells(rng):
    """'A1:B2' -> rows of 'A1'-style addresses (row-major)."""
    a, b = rng.replace('$', '').split(':')
    c1, r1 = split_a1(a)
    c2, r2 = split_a1(b)
    n1, n2 = sorted((col_to_num(c1), col_to_num(c2)))
    r1, r2 = sorted((r1, r2))
    return [[num_to_col(c) + str(r) for c in range(n1, n2 + 1)]
            for r in range(r1, r2 + 1)]


def evaluate(tree, env, sheet=None):
    sheet = sheet if sheet is not None else env.sheet
    k = tree[0]
    if k == 'num':
        return literal_value(tree[1])
    if k == 'str':
        return tree[1]
    if k == 'bool':
        return tree[1]
    if k == 'err':
        return Err(tree[1])
    if k == 'ref':
        return env.cell(tree[1], sheet)
    if k == 'pctref':
        # a reference followed by the postfix percent operator: A1%
        return binop('/', env.cell(tree[1], sheet), 100)
    if k == 'range':
        rng = tree[1]
        sh = sheet
        if '!' in rng:
            shq, rng = rng.rsplit('!', 1)
            sh = env.full(shq + '!A1', sheet).rsplit('!', 1)[0]
        return [[env.cell(a, sh) for a in row] for row in range_cells(rng)]
    if k in ('par', 'pos'):
        return evaluate(tree[1], env, sheet)
    if k == 'neg':
        return negate(evaluate(tree[1], env, sheet))
    if k == 'op':
        a = evaluate(tree[2], env, sheet)
        b = evaluate(tree[3], env, sheet)
        return binop(tree[1], a, b)
    if k == 'call':
        f = env.funcs.get(tree[1].upper())
        if f is None:
            return UNDEF
        return f(env, sheet, tree[2])
    raise ValueError(k)


# ---------------------------------------------------------------------------
# rendering with minimal parentheses under the reference grammar

def prec(tree):
    k = tree[0]
    if k == 'op':
        return PREC[tree[1]]
    if k in ('neg', 'pos'):
        return 7
    return 9


def render(tree, ws=None):
    """Concrete text (without the leading '=').  ws: optional callable
    returning the blank string to insert at a token boundary."""
    w = ws or (lambda: '')
    k = tree[0]
    if k == 'num':
        return tree[1]
    if k == 'str':
        return '"' + tree[1].replace('"', '""') + '"'
    if k == 'bool':
        return 'TRUE' if tree[1] else 'FALSE'
    if k == 'err':
        return tree[1]
    if k in ('ref', 'range'):
        return tree[1]
    if k == 'pctref':
        return tree[1] + '%'
    if k == 'par':
        return '(' + w() + render(tree[1], ws) + w() + ')'
    if k in ('neg', 'pos'):
        inner = tree[1]
        s = render(inner, ws)
        if inner[0] == 'op':
            s = '(' + s + ')'
        return ('-' if k == 'neg' else '+') + w() + s
    if k == 'op':
        p = PREC[tree[1]]
        l, r = tree[2], tree[3]
        ls, rs = render(l, ws), render(r, ws)
        if prec(l) < p:
            ls = '(' + ls + ')'
        if prec(r) <= p:
            rs = '(' + rs + ')'
        return ls + w() + tree[1] + w() + rs
    if k == 'call':
        args = (w() + ',' + w()).join(render(a, ws) for a in tree[2])
        return tree[1] + '(' + w() + args + w() + ')'
    raise ValueError(k)


def strip_par(tree):
    """Canonical tree: redundant parentheses and unary plus removed."""
    k = tree[0]
    if k in ('par', 'pos'):
        return strip_par(tree[1])
    if k == 'neg':
        return ['neg', strip_par(tree[1])]
    if k == 'op':
        return ['op', tree[1], strip_par(tree[2]), strip_par(tree[3])]
    if k == 'call':
        return ['call', tree[1], [strip_par(a) for a in tree[2]]]
    return tree


def count_nodes(tree):
    k = tree[0]
    if k in ('par', 'pos', 'neg'):
        return 1 + count_nodes(tree[1])
    if k == 'op':
        return 1 + count_nodes(tree[2]) + count_nodes(tree[3])
    if k == 'call':
        return 1 + sum(count_nodes(a) for a in tree[2])
    return 1


def ops_in(tree, acc=None):
    acc = [] if acc is None else acc
    k = tree[0]
    if k in ('par', 'pos', 'neg'):
        if k == 'neg':
            acc.append('u-')
        ops_in(tree[1], acc)
    elif k == 'op':
        ops_in(tree[2], acc)
        acc.append(tree[1])
        ops_in(tree[3], acc)
    elif k == 'call':
        for a in tree[2]:
            ops_in(a, acc)
    return acc
