"""./check <ID> [quick|thorough] | ./check <ID> --replay <file>

exit 0: property held on everything explored (KNOWN-FINDING lines possible)
exit 1: at least one 'VIOLATION property=<id> replay=<path>' line
exit 2: harness error (never reported as a violation)
"""
import os
import sys


def main(argv):
    if os.environ.get('PYTHONHASHSEED') != '0':
        env = dict(os.environ, PYTHONHASHSEED='0')
        os.execve(sys.executable, [sys.executable, '-m', 'vf.cli'] + argv,
                  env)
    if not argv:
        print(__doc__)
        return 2
    pid = argv[0].upper()
    tier = os.environ.get('VERIF_TIER', 'quick')
    replay = None
    rest = argv[1:]
    i = 0
    while i < len(rest):
        a = rest[i]
        if a in ('quick', 'thorough'):
            tier = a
        elif a == '--replay':
            replay = rest[i + 1]
            i += 1
        else:
            print('unknown argument', a)
            return 2
        i += 1
    try:
        seed = int(os.environ.get('VERIF_SEED', '1'))
    except ValueError:
        seed = 1
    from vf.core import runner
    modname = 'vf.checks.' + pid.lower()
    try:
        return runner.run_check(modname, pid, tier, seed, replay=replay)
    except SystemExit as e:
        return e.code if isinstance(e.code, int) else 2
    except Exception:
        import traceback
        traceback.print_exc()
        print('harness error: runner crashed')
        return 2


if __name__ == '__main__':
    sys.exit(main(sys.argv[1:]))
