"""Minimal SpreadsheetML (.xlsx) writer: zip + XML strings.

Emits what openpyxl's own writer cannot: cached formula values, t="str",
inlineStr, t="e", shared-formula masters/members, date styles, definedNames.

workbook = {
  'sheets': [{'name': 'Sheet1', 'cells': {'A1': cell, ...}}, ...],
  'names': [{'name': 'MyName', 'ref': "Sheet1!$A$1"}, ...]}
cell = {'kind': 'n'|'s'|'str'|'inlineStr'|'b'|'e'|'date', 'v': value}
     | {'kind': 'empty'}
     | {'kind': 'f', 'f': 'A2+1', 'cached': value|None, 'ctype': 'n'|'str'|'b'|'e'}
     | {'kind': 'shared-master', 'f': 'A1*2', 'ref': 'B1:B3', 'si': 0, 'cached':..,'ctype':..}
     | {'kind': 'shared-member', 'si': 0, 'cached': .., 'ctype': ..}
"""
import re
import zipfile
from xml.sax.saxutils import escape

CT = ('<?xml version="1.0" encoding="UTF-8" standalone="yes"?>'
      '<Types xmlns="http://schemas.openxmlformats.org/package/2006/'
      'content-types"><Default Extension="rels" ContentType="application/'
      'vnd.openxmlformats-package.relationships+xml"/><Default '
      'Extension="xml" ContentType="application/xml"/><Override '
      'PartName="/xl/workbook.xml" ContentType="application/vnd.'
      'openxmlformats-officedocument.spreadsheetml.sheet.main+xml"/>'
      '%s<Override PartName="/xl/styles.xml" ContentType="application/vnd.'
      'openxmlformats-officedocument.spreadsheetml.styles+xml"/><Override '
      'PartName="/xl/sharedStrings.xml" ContentType="application/vnd.'
      'openxmlformats-officedocument.spreadsheetml.sharedStrings+xml"/>'
      '</Types>')
RELS = ('<?xml version="1.0" encoding="UTF-8" standalone="yes"?>'
        '<Relationships xmlns="http://schemas.openxmlformats.org/package/'
        '2006/relationships"><Relationship Id="rId1" Type="http://schemas.'
        'openxmlformats.org/officeDocument/2006/relationships/'
        'officeDocument" Target="xl/workbook.xml"/></Relationships>')
STYLES = ('<?xml version="1.0" encoding="UTF-8" standalone="yes"?>'
          '<styleSheet xmlns="http://schemas.openxmlformats.org/'
          'spreadsheetml/2006/main"><fonts count="1"><font><sz val="11"/>'
          '<name val="Calibri"/></font></fonts><fills count="2"><fill>'
          '<patternFill patternType="none"/></fill><fill><patternFill '
          'patternType="gray125"/></fill></fills><borders count="1">'
          '<border><left/><right/><top/><bottom/><diagonal/></border>'
          '</borders><cellStyleXfs count="1"><xf numFmtId="0" fontId="0" '
          'fillId="0" borderId="0"/></cellStyleXfs><cellXfs count="2"><xf '
          'numFmtId="0" fontId="0" fillId="0" borderId="0" xfId="0"/><xf '
          'numFmtId="14" fontId="0" fillId="0" borderId="0" xfId="0" '
          'applyNumberFormat="1"/></cellXfs></styleSheet>')
NS = 'http://schemas.openxmlformats.org/spreadsheetml/2006/main'
RNS = 'http://schemas.openxmlformats.org/officeDocument/2006/relationships'


def _t(text):
    sp = ' xml:space="preserve"' if text != text.strip() or '\n' in text \
        else ''
    return '<t%s>%s</t>' % (sp, escape(text))


def _num(v):
    if isinstance(v, bool):
        return '1' if v else '0'
    r = repr(v)
    return r


def _cached(cached, ctype):
    """(t attribute, <v> element) for a cached formula result."""
    if cached is None:
        return '', ''
    if ctype == 'str':
        return ' t="str"', '<v>%s</v>' % escape(str(cached))
    if ctype == 'inlineStr':
        # the cached text of a formula written as an inline string
        return ' t="inlineStr"', '<is>%s</is>' % _t(str(cached))
    if ctype == 'b':
        return ' t="b"', '<v>%d</v>' % (1 if cached else 0)
    if ctype == 'e':
        return ' t="e"', '<v>%s</v>' % escape(str(cached))
    return '', '<v>%s</v>' % _num(cached)


def _key(a1):
    m = re.match(r'([A-Z]+)(\d+)$', a1)
    col = 0
    for ch in m.group(1):
        col = col * 26 + ord(ch) - 64
    return int(m.group(2)), col


def write(path, wb):
    shared = []
    sidx = {}

    def sst(text):
        if text not in sidx:
            sidx[text] = len(shared)
            shared.append(text)
        return sidx[text]
    sheets_xml = []
    for sh in wb['sheets']:
        rows = {}
        for a1, c in sh['cells'].items():
            rows.setdefault(_key(a1)[0], []).append((a1, c))
        parts = []
        for r in sorted(rows):
            cs = []
            for a1, c in sorted(rows[r], key=lambda x: _key(x[0])):
                k = c['kind']
                if k == 'n':
                    cs.append('<c r="%s"><v>%s</v></c>' % (a1, _num(c['v'])))
                elif k == 'date':
                    cs.append('<c r="%s" s="1"><v>%s</v></c>'
                              % (a1, _num(c['v'])))
                elif k == 's':
                    cs.append('<c r="%s" t="s"><v>%d</v></c>'
                              % (a1, sst(c['v'])))
                elif k == 'str':
                    cs.append('<c r="%s" t="str"><v>%s</v></c>'
                              % (a1, escape(c['v'])))
                elif k == 'inlineStr':
                    cs.append('<c r="%s" t="inlineStr"><is>%s</is></c>'
                              % (a1, _t(c['v'])))
                elif k == 'b':
                    cs.append('<c r="%s" t="b"><v>%d</v></c>'
                              % (a1, 1 if c['v'] else 0))
                elif k == 'empty':
                    # a stored cell without a value (formatting only)
                    cs.append('<c r="%s" s="1"/>' % a1)
                elif k == 'e':
                    cs.append('<c r="%s" t="e"><v>%s</v></c>'
                              % (a1, escape(c['v'])))
                elif k == 'f':
                    ta, v = _cached(c.get('cached'), c.get('ctype', 'n'))
                    cs.append('<c r="%s"%s><f>%s</f>%s</c>'
                              % (a1, ta, escape(c['f']), v))
                elif k == 'shared-master':
                    ta, v = _cached(c.get('cached'), c.get('ctype', 'n'))
                    cs.append('<c r="%s"%s><f t="shared" ref="%s" si="%d">'
                              '%s</f>%s</c>' % (a1, ta, c['ref'], c['si'],
                                                escape(c['f']), v))
                elif k == 'shared-member':
                    ta, v = _cached(c.get('cached'), c.get('ctype', 'n'))
                    cs.append('<c r="%s"%s><f t="shared" si="%d"/>%s</c>'
                              % (a1, ta, c['si'], v))
                else:
                    raise ValueError(k)
            parts.append('<row r="%d">%s</row>' % (r, ''.join(cs)))
        sheets_xml.append(
            '<?xml version="1.0" encoding="UTF-8" standalone="yes"?>'
            '<worksheet xmlns="%s"><sheetData>%s</sheetData></worksheet>'
            % (NS, ''.join(parts)))
    names = ''
    if wb.get('names'):
        names = '<definedNames>%s</definedNames>' % ''.join(
            '<definedName name="%s">%s</definedName>'
            % (escape(n['name']), escape(n['ref'])) for n in wb['names'])
    wbxml = ('<?xml version="1.0" encoding="UTF-8" standalone="yes"?>'
             '<workbook xmlns="%s" xmlns:r="%s">%s<sheets>%s</sheets>%s'
             '</workbook>' % (NS, RNS, '<workbookPr date1904="1"/>'
                              if wb.get('date1904') else '', ''.join(
                 '<sheet name="%s" sheetId="%d" r:id="rId%d"/>'
                 % (escape(sh['name'], {'"': '&quot;'}), i + 1, i + 1)
                 for i, sh in enumerate(wb['sheets'])), names))
    n = len(wb['sheets'])
    wbrels = ('<?xml version="1.0" encoding="UTF-8" standalone="yes"?>'
              '<Relationships xmlns="http://schemas.openxmlformats.org/'
              'package/2006/relationships">%s<Relationship Id="rId%d" '
              'Type="%s/styles" Target="styles.xml"/><Relationship '
              'Id="rId%d" Type="%s/sharedStrings" Target="sharedStrings.xml"'
              '/></Relationships>' % (''.join(
                  '<Relationship Id="rId%d" Type="%s/worksheet" '
                  'Target="worksheets/sheet%d.xml"/>' % (i + 1, RNS, i + 1)
                  for i in range(n)), n + 1, RNS, n + 2, RNS))
    sstxml = ('<?xml version="1.0" encoding="UTF-8" standalone="yes"?>'
              '<sst xmlns="%s" count="%d" uniqueCount="%d">%s</sst>'
              % (NS, len(shared), len(shared),
                 ''.join('<si>%s</si>' % _t(s) for s in shared)))
    ct = CT % ''.join(
        '<Override PartName="/xl/worksheets/sheet%d.xml" ContentType='
        '"application/vnd.openxmlformats-officedocument.spreadsheetml.'
        'worksheet+xml"/>' % (i + 1) for i in range(n))
    with zipfile.ZipFile(path, 'w', zipfile.ZIP_STORED) as z:
        z.writestr('[Content_Types].xml', ct)
        z.writestr('_rels/.rels', RELS)
        z.writestr('xl/workbook.xml', wbxml)
        z.writestr('xl/_rels/workbook.xml.rels', wbrels)
        z.writestr('xl/styles.xml', STYLES)
        z.writestr('xl/sharedStrings.xml', sstxml)
        for i, x in enumerate(sheets_xml):
            z.writestr('xl/worksheets/sheet%d.xml' % (i + 1), x)
