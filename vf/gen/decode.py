"""Structured decoding of a drawn byte string into generator choices.

One Hypothesis draw (st.binary) feeds a deterministic decoder, which is
~100x cheaper than many nested draws, shrinks well (shorter / smaller bytes
give simpler structures: every choice list puts its simplest entry first and
an exhausted decoder always answers 0) and lets the Atheris fuzz targets use
the very same generators on libFuzzer's bytes.
"""
from hypothesis import strategies as st


class D:
    __slots__ = ('data', 'i')

    def __init__(self, data):
        self.data = data
        self.i = 0

    def pick(self, n):
        """next choice in range(n); 0 when the data is exhausted."""
        if n <= 1:
            return 0
        if self.i < len(self.data):
            v = self.data[self.i]
            self.i += 1
            if n > 256 and self.i < len(self.data):
                v = v * 256 + self.data[self.i]
                self.i += 1
            return v % n
        return 0

    def choice(self, seq):
        return seq[self.pick(len(seq))]

    def chance(self, k, n):
        """True with probability k/n; False when exhausted."""
        return self.pick(n) >= n - k if n > 1 else False

    def int(self, lo, hi):
        return lo + self.pick(hi - lo + 1)

    def left(self):
        return len(self.data) - self.i


def decoded(build, max_size=64, min_size=0):
    """Strategy: bytes -> build(D(bytes))."""
    # Hypothesis prefers short byte strings (mean near 2 x min_size), and an
    # exhausted decoder answers 0 - the simplest choice - so that most cases
    # would be starved half way through their structure.  Every second case
    # therefore gets the full budget.
    sizes = st.one_of(st.binary(min_size=min_size, max_size=max_size),
                      st.binary(min_size=max_size, max_size=max_size))
    return sizes.map(lambda b: build(D(b)))
