"""Random ACYCLIC spreadsheet models with their dependency relation and an
independent reference evaluation (shared by C04, C05, C12, C13).

Layout (acyclic by construction - a formula only refers to earlier levels):
  inputs   Sheet1!A1:B4   numbers (A1 always present, others maybe blank)
  level 1  Sheet1!C1:C4   formulas over inputs and input ranges
  level 2  Sheet1!D1:D4   formulas over inputs, level 1, ranges over C / A:B
  level 3  Sheet2!A1:A3   (optional sheet) formulas over Sheet1 (qualified)
  level 4  Sheet1!E1:E3   formulas over everything above (Sheet2 qualified)

Formula trees use the node format of vf.ref.refeval; all references in
formulas that live on, or point to, a sheet other than Sheet1 are written
sheet-qualified.
"""
from vf.ref import refeval as R

INPUT_SLOTS = ['A1', 'A2', 'A3', 'A4', 'B1', 'B2', 'B3', 'B4']
LEVELS = [
    ('Sheet1', ['C1', 'C2', 'C3', 'C4']),
    ('Sheet1', ['D1', 'D2', 'D3', 'D4']),
    ('Sheet2', ['A1', 'A2', 'A3']),
    ('Sheet1', ['E1', 'E2', 'E3']),
]


def _sum(env, sheet, args):
    return _fold(env, sheet, args, sum, 0)


def _max(env, sheet, args):
    return _fold(env, sheet, args, max, 0)


def _min(env, sheet, args):
    return _fold(env, sheet, args, min, 0)


def _fold(env, sheet, args, f, empty):
    nums = []
    for a in args:
        v = R.evaluate(a, env, sheet)
        if isinstance(v, list):
            for row in v:
                for x in row:
                    if isinstance(x, R.Err):
                        return x
                    if x is R.UNDEF:
                        return R.UNDEF
                    if isinstance(x, (bool, str)):
                        # booleans / texts INSIDE a range: not pinned down
                        # here (C14 owns aggregates)
                        return R.UNDEF
                    if R.is_num(x):
                        nums.append(x)
        elif isinstance(v, R.Err):
            return v
        elif v is R.UNDEF:
            return R.UNDEF
        elif R.is_num(v):
            nums.append(v)
        elif v is None:
            pass
        else:
            return R.UNDEF
    if not nums:
        return R.UNDEF if f is not sum else 0
    return f(nums)


def _if(env, sheet, args):
    c = R.evaluate(args[0], env, sheet)
    if isinstance(c, R.Err) or c is R.UNDEF:
        return c
    if isinstance(c, bool):
        t = c
    elif R.is_num(c):
        t = c != 0
    elif c is None:
        t = False
    else:
        return R.UNDEF
    sel = args[1] if t else (args[2] if len(args) > 2 else ['bool', False])
    v = R.evaluate(sel, env, sheet)
    return v


def _isnumber(env, sheet, args):
    v = R.evaluate(args[0], env, sheet)
    if v is R.UNDEF:
        return v
    return R.is_num(v)


def _truth(v):
    if isinstance(v, bool):
        return v
    if R.is_num(v):
        return v != 0
    return R.UNDEF


def _logic(kind):
    def f(env, sheet, args):
        vals = []
        for a in args:
            v = R.evaluate(a, env, sheet)
            if isinstance(v, R.Err):
                return v if not vals or kind == 'NOT' else R.UNDEF
            t = _truth(v)
            if t is R.UNDEF:
                return R.UNDEF
            vals.append(t)
        if kind == 'NOT':
            return not vals[0]
        return all(vals) if kind == 'AND' else any(vals)
    return f


FUNCS = {'SUM': _sum, 'MAX': _max, 'MIN': _min, 'IF': _if,
         'ISNUMBER': _isnumber, 'AND': _logic('AND'), 'OR': _logic('OR'),
         'NOT': _logic('NOT')}


def _q(sheet, a1, from_sheet):
    """reference text to (sheet, a1) as written in a formula on from_sheet."""
    if sheet == 'Sheet1' and from_sheet == 'Sheet1':
        return a1
    return sheet + '!' + a1


def build_model(d, two_sheets=None, max_formulas=11, names=False):
    """Decode a model from decoder d."""
    use2 = bool(d.pick(3) == 0) if two_sheets is None else two_sheets
    inputs = {}
    base = d.int(1, 9)
    for i, slot in enumerate(INPUT_SLOTS):
        if i == 0 or d.pick(4):
            v = base + 2 * i + (0.5 if d.pick(6) == 0 else 0)
            if d.pick(7) == 0:
                v = -v
            if i and d.pick(9) == 0:
                # a ZERO constant is not a blank cell (MIN, MAX, IF tell)
                v = 0
            inputs['Sheet1!' + slot] = v
    formulas = {}
    order = []
    avail = [('Sheet1', s) for s in INPUT_SLOTS if 'Sheet1!' + s in inputs]
    nform = 0
    for li, (sheet, slots) in enumerate(LEVELS):
        if sheet == 'Sheet2' and not use2:
            continue
        made = []
        for slot in slots:
            if nform >= max_formulas or (d.pick(3) == 0 and nform > 0):
                continue
            tree = _formula(d, sheet, avail, li)
            formulas[sheet + '!' + slot] = tree
            order.append(sheet + '!' + slot)
            made.append((sheet, slot))
            nform += 1
        avail = avail + made
    model = {'inputs': inputs, 'formulas': formulas, 'order': order,
             'sheets': ['Sheet1'] + (['Sheet2'] if use2 else [])}
    if use2 and d.pick(3) == 0:
        # the second sheet under a name that is EASILY CONFUSED with the
        # first: another letter case, the first name plus a suffix
        model = rename_sheet(model, 'Sheet2', d.choice(
            ['SHEET1', 'sheet1', 'Sheet10', 'Sheet1_', 'Sheet']))
    return model


def workbook_safe(model):
    """a workbook cannot hold two sheets whose names differ only in letter
    case: give the second one back its plain name"""
    for s in model['sheets'][1:]:
        if s.lower() == model['sheets'][0].lower():
            return rename_sheet(model, s, 'Sheet2')
    return model


def rename_sheet(model, old, new):
    """the same model with sheet `old` called `new` (addresses, references
    inside formulas, sheet list)."""
    def addr(a):
        s, c = a.split('!')
        return (new if s == old else s) + '!' + c

    def tree(t):
        k = t[0]
        if k in ('ref', 'range'):
            v = t[1]
            return [k, addr(v) if '!' in v else v]
        if k in ('neg', 'par', 'pos', 'pct'):
            return [k, tree(t[1])]
        if k == 'op':
            return ['op', t[1], tree(t[2]), tree(t[3])]
        if k == 'call':
            return ['call', t[1], [tree(a) for a in t[2]]]
        return t
    out = dict(model)
    out['inputs'] = {addr(a): v for a, v in model['inputs'].items()}
    out['formulas'] = {addr(a): tree(t) for a, t in model['formulas'].items()}
    out['order'] = [addr(a) for a in model['order']]
    out['sheets'] = [new if s == old else s for s in model['sheets']]
    return out


def _operand(d, sheet, avail):
    if d.pick(4) == 0:
        return ['num', str(d.int(1, 9))]
    s, a = d.choice(avail)
    ref = ['ref', _q(s, a, sheet)]
    k = d.pick(12)
    if k == 0:
        return ['neg', ref]             # =-A1+B1, =B1*-A1
    if k == 1:
        return ['par', ref]             # =(A1)+B1
    if k == 2:
        return ['neg', ['par', ref]]      # =-(A1)
    return ref


def _range(d, sheet, avail, level):
    """a rectangle made only of earlier cells / blanks."""
    opts = ['A1:B4', 'A1:A4', 'B1:B4', 'A1:B2', 'A2:B3', 'A1:A2', 'B2:B4']
    if level >= 1:
        opts += ['C1:C4', 'C1:C2', 'C2:C4', 'A1:C4']
    if level >= 3:
        opts += ['D1:D4', 'C1:D4', 'C3:D4', 'A1:D4']
    r = d.choice(opts)
    return ['range', _q('Sheet1', r, sheet)]


def _formula(d, sheet, avail, level):
    k = d.pick(13)
    if k == 12:
        # a pure LINK: the whole formula is one reference (=B1, =Sheet2!A1),
        # preferably to another formula cell
        s, a = avail[-1 - d.pick(min(4, len(avail)))]
        return ['ref', _q(s, a, sheet)]
    if k == 10:
        # a comparison as the ROOT of a formula (the cell holds a boolean)
        return ['op', d.choice(['<', '>', '=', '<=', '>=', '<>']),
                _operand(d, sheet, avail), _operand(d, sheet, avail)]
    if k == 11:
        # a concatenation as the root (the cell holds a text)
        return ['op', '&', _operand(d, sheet, avail),
                d.choice([['str', '-'], _operand(d, sheet, avail)])]
    if k < 4:
        return ['op', d.choice(['+', '-', '*', '+']),
                _operand(d, sheet, avail), _operand(d, sheet, avail)]
    if k < 7:
        fn = d.choice(['SUM', 'SUM', 'MAX', 'MIN'])
        args = [_range(d, sheet, avail, level)]
        if fn != 'SUM' and not args[0][1].split('!')[-1].startswith('A1:'):
            # MAX/MIN over no numbers at all is not asserted anywhere: keep
            # A1 (always a number) inside the range
            args = [['range', _q('Sheet1', d.choice(
                ['A1:B4', 'A1:A4', 'A1:B2', 'A1:A2']), sheet)]]
        for _ in range(d.pick(3)):
            args.append(_operand(d, sheet, avail))
        if d.pick(2):
            args.reverse()
        return ['call', fn, args]
    if k < 9:
        cond = ['op', d.choice(['>', '<', '>=', '=']),
                _operand(d, sheet, avail), _operand(d, sheet, avail)]
        if d.pick(4) == 0:
            # the condition through AND / OR / NOT (lazily evaluated too)
            c2 = ['op', d.choice(['>', '<']), _operand(d, sheet, avail),
                  ['num', str(d.int(0, 9))]]
            cond = d.choice([['call', 'AND', [cond, c2]],
                             ['call', 'OR', [cond, c2]],
                             ['call', 'NOT', [cond]]])
        return ['call', 'IF', [cond, _operand(d, sheet, avail),
                               ['op', '+', _operand(d, sheet, avail),
                                ['num', '1']]]]
    return ['op', '+', ['call', 'SUM', [_range(d, sheet, avail, level)]],
            ['op', '*', _operand(d, sheet, avail),
             _operand(d, sheet, avail)]]


def to_dict(model, inputs=None):
    out = dict(model['inputs'] if inputs is None else inputs)
    for a, t in model['formulas'].items():
        out[a] = '=' + R.render(t)
    return out


def ref_values(model, inputs=None, cells=None):
    """reference value (native) of every formula cell (or of `cells`)."""
    env = R.Env(cells=dict(model['inputs'] if inputs is None else inputs),
                formulas=model['formulas'], funcs=FUNCS)
    out = {}
    for a in (cells if cells is not None else model['formulas']):
        sheet, a1 = a.split('!')
        out[a] = env.cell(a1, sheet)
    return out


def refs_of(tree, sheet, acc=None):
    """full addresses a formula tree mentions (ranges expanded)."""
    acc = set() if acc is None else acc
    k = tree[0]
    if k == 'ref':
        t = tree[1]
        acc.add(t if '!' in t else sheet + '!' + t)
    elif k == 'range':
        t = tree[1]
        sh = sheet
        if '!' in t:
            sh, t = t.split('!')
        for row in R.range_cells(t):
            for a in row:
                acc.add(sh + '!' + a)
    elif k in ('neg', 'par', 'pos'):
        refs_of(tree[1], sheet, acc)
    elif k == 'op':
        refs_of(tree[2], sheet, acc)
        refs_of(tree[3], sheet, acc)
    elif k == 'call':
        for a in tree[2]:
            refs_of(a, sheet, acc)
    return acc


def deps(model):
    return {a: refs_of(t, a.split('!')[0])
            for a, t in model['formulas'].items()}


def closure(model, start):
    dp = deps(model)
    seen = set()
    todo = list(start)
    while todo:
        a = todo.pop()
        if a in seen:
            continue
        seen.add(a)
        todo.extend(dp.get(a, ()))
    return seen


def depth(model, addr, dp=None, memo=None):
    dp = deps(model) if dp is None else dp
    memo = {} if memo is None else memo
    if addr in memo:
        return memo[addr]
    if addr not in model['formulas']:
        memo[addr] = 0
        return 0
    v = 1 + max([depth(model, x, dp, memo) for x in dp[addr]] + [0])
    memo[addr] = v
    return v
