"""Per-function table of valid sample arguments, shared by C07 and C08.

Values are JSON natives: numbers, strings, booleans; dates are serial
numbers.  Functions registered in xl.FUNCTIONS but missing here get
samples synthesised from their signature (so new functions are covered).
"""
import inspect

SAMPLES = {
    'ABS': [[-3.5], [2]], 'ACOS': [[0.5]], 'ACOSH': [[2]], 'ASIN': [[0.5]],
    'ASINH': [[1.5]], 'ATAN': [[1]], 'ATAN2': [[1, 2]],
    'CEILING': [[2.5, 1], [7, 2]], 'COS': [[1]], 'COSH': [[1]],
    'DEGREES': [[1]], 'EVEN': [[3]], 'EXP': [[1]], 'FACT': [[5]],
    'FACTDOUBLE': [[6]], 'FLOOR': [[3.7, 2]], 'INT': [[3.7]], 'LN': [[2]],
    'LOG': [[8, 2], [100]], 'LOG10': [[100]], 'MOD': [[7, 3]],
    'POWER': [[2, 3]], 'RADIANS': [[90]], 'ROUND': [[2.567, 1], [2.5]],
    'ROUNDDOWN': [[2.567, 1]], 'ROUNDUP': [[2.567, 1]], 'SIGN': [[-2]],
    'SIN': [[1]], 'SQRT': [[9]], 'SQRTPI': [[2]], 'TAN': [[1]],
    'TRUNC': [[2.567, 1], [2.5]],
    'DATE': [[2020, 5, 17]], 'DAY': [[43831]], 'MONTH': [[43900]],
    'YEAR': [[43831]], 'WEEKDAY': [[43831, 2], [43831]],
    'ISOWEEKNUM': [[43831]], 'DAYS': [[43900, 43831]],
    'EDATE': [[43831, 3]], 'EOMONTH': [[43831, 2]],
    'DATEDIF': [[43831, 44000, 'D']], 'YEARFRAC': [[43831, 44000, 2]],
    'EXACT': [['ab', 'ab']], 'FIND': [['b', 'abcb', 1], ['c', 'abc']],
    'LEFT': [['hello', 2]], 'LEN': [['hello']], 'LOWER': [['AbC']],
    'MID': [['hello', 2, 3]], 'REPLACE': [['hello', 2, 2, 'XY']],
    'RIGHT': [['hello', 2]], 'TRIM': [[' a  b ']], 'UPPER': [['abc']],
    'ISEVEN': [[4]], 'ISODD': [[3]],
    'PMT': [[0.05, 10, 1000]], 'PV': [[0.05, 10, -100]],
    'SLN': [[1000, 100, 5]], 'NPV': [[0.1, 100, 200]],
    'VDB': [[2400, 300, 10, 0, 1]],
    'CHOOSE': [[2, 10, 20, 30]], 'RANDBETWEEN': [[3, 3]],
    'OP_ADD': [[6, 3]], 'OP_SUB': [[6, 3]], 'OP_MUL': [[6, 3]],
    'OP_DIV': [[6, 3]], 'OP_EQ': [[6, 3]], 'OP_NE': [[6, 3]],
    'OP_LT': [[6, 3]], 'OP_LE': [[6, 3]], 'OP_GT': [[6, 3]],
    'OP_GE': [[6, 3]], 'OP_NEG': [[5]], 'OP_PERCENT': [[5]],
    'DEC2BIN': [[5, 8]], 'DEC2OCT': [[64, 4]], 'DEC2HEX': [[255, 4]],
    'BIN2DEC': [['101']], 'BIN2OCT': [['1010', 4]], 'BIN2HEX': [['1010', 4]],
    'OCT2DEC': [['17']], 'OCT2BIN': [['7', 4]], 'OCT2HEX': [['17', 4]],
    'HEX2DEC': [['FF']], 'HEX2BIN': [['F', 6]], 'HEX2OCT': [['F', 4]],
    'SUM': [[1, 2, 3]], 'AVERAGE': [[1, 2, 3]], 'MIN': [[1, 2, 3]],
    'MAX': [[1, 2, 3]], 'CONCAT': [['a', 'b']], 'CONCATENATE': [['a', 'b']],
    'XNPV': [[0.1, [[-100], [60], [70]], [[43831], [43900], [44000]]]],
    'XIRR': [[[[-100], [60], [70]], [[43831], [43900], [44000]]]],
    'IRR': [[[[-100], [60], [70]]]],
    'MATCH': [[2, [[1], [2], [3]], 0]],
    'VLOOKUP': [[2, [[1, 'a'], [2, 'b']], 2]],
    'COUNTIF': [[[[1], [2], [3]], '>1']],
    'SUMPRODUCT': [[[[1], [2]], [[3], [4]]]],
}

# functions whose observable result is volatile or that take no arguments
VOLATILE = {'RAND', 'NOW', 'TODAY'}
ERROR_INSPECTORS = {'ISBLANK', 'ISERR', 'ISERROR', 'ISNA', 'ISNUMBER',
                    'ISTEXT', 'COUNT', 'COUNTA', 'COUNTIF', 'COUNTIFS'}
LAZY = {'IF', 'AND', 'OR', 'NOT'}
PANDAS_BROKEN = {'SUMIF', 'SUMIFS'}


def param_kinds(xl, name):
    """[(pname, kind, variadic, has_default)] from the registered function's
    signature.  kind in num text date bool any array expr other."""
    f = xl.FUNCTIONS[name]
    sig = inspect.signature(f)
    out = []
    for p in sig.parameters.values():
        a = p.annotation
        var = p.kind == p.VAR_POSITIONAL
        if var and getattr(a, '__args__', None):
            a = a.__args__[0]
        if a in (xl.XlNumber, xl.Number):
            k = 'num'
        elif a in (xl.XlText, xl.Text):
            k = 'text'
        elif a is xl.XlDateTime:
            k = 'date'
        elif a is xl.XlBoolean:
            k = 'bool'
        elif a is xl.XlArray:
            k = 'array'
        elif a is xl.XlExpr:
            k = 'expr'
        elif a is xl.XlAnything or a is p.empty:
            k = 'any'
        else:
            k = 'other'
        if p.name.startswith('_'):
            continue
        out.append((p.name, k, var, p.default is not p.empty))
    return out


def samples_for(xl, name):
    if name in SAMPLES:
        return SAMPLES[name]
    kinds = param_kinds(xl, name)
    args = []
    for pname, k, var, dflt in kinds:
        if dflt:
            break
        v = {'num': 2, 'text': 'ab', 'date': 43831, 'bool': True,
             'any': 2, 'array': [[1], [2]], 'expr': 1, 'other': 2}[k]
        args.append(v)
        if var:
            args.append(v)
    return [args]


def kinds_of_args(xl, name, args):
    """kind for each supplied positional argument (variadic repeated)."""
    kinds = param_kinds(xl, name)
    out = []
    i = 0
    for a in args:
        if i < len(kinds):
            out.append(kinds[i][1])
            if not kinds[i][2]:
                i += 1
        else:
            out.append('other')
    return out
