"""Atheris (libFuzzer) campaign for one check module.

  python -m vf.fuzz.target <module> <builder> <out.jsonl> [libFuzzer args]

The target is STRUCTURED: libFuzzer's bytes go through the same byte decoder
as the Hypothesis strategies (vf/gen/decode.py) and the module's own builder,
and the semantic oracle (module.judge) runs inside the target.  Disagreements
are appended to <out.jsonl> (one JSON object per failing case; the process is
left running so the campaign goes on past the first finding - libFuzzer exits
through exit(), atexit handlers do not run, hence the incremental file).
"""
import importlib
import json
import os
import sys


def main():
    modname, builder, out = sys.argv[1:4]
    fargs = [sys.argv[0]] + sys.argv[4:]
    repo = os.path.abspath(os.environ.get('XLC_REPO', '/repo'))
    sys.path.insert(0, repo)
    import atheris
    with atheris.instrument_imports(include=[
            'xlcalculator.tokenizer', 'xlcalculator.parser',
            'xlcalculator.ast_nodes']):
        import xlcalculator  # noqa: F401
    import logging
    logging.disable(logging.CRITICAL)
    from vf.gen.decode import D
    mod = importlib.import_module(modname)
    build = getattr(mod, builder)
    seen = set()
    stats = {'n': 0, 'nontrivial': 0}
    fp = open(out, 'a')

    def one(data):
        case = build(D(data))
        res = mod.judge(case)
        stats['n'] += 1
        if res.nontrivial:
            stats['nontrivial'] += 1
        for f in res.fails:
            key = f['bucket']
            if key in seen and stats['n'] % 50:
                continue
            seen.add(key)
            fp.write(json.dumps({'case': case, 'fail': f}, default=str)
                     + '\n')
            fp.flush()
        if stats['n'] % 2000 == 0:
            fp.write(json.dumps({'stats': stats}) + '\n')
            fp.flush()

    atheris.Setup(fargs, one)
    atheris.Fuzz()


if __name__ == '__main__':
    main()
