#!/bin/sh
# Offline setup: make sure hypothesis is importable by /venv/bin/python
# (the interpreter that has the repository and its dependencies), and try to
# install atheris for the thorough fuzz tiers (optional).
cd "$(dirname "$0")" || exit 1
/venv/bin/python -c 'import hypothesis' 2>/dev/null || \
  /venv/bin/pip install -q --no-index --find-links /opt/veriftools/wheels hypothesis || exit 1
if [ ! -d .deps/atheris ]; then
  /venv/bin/pip install -q --no-index --find-links /opt/veriftools/wheels --target .deps atheris >/dev/null 2>&1 || \
    echo "note: atheris not installable; thorough fuzz tiers fall back to Hypothesis"
fi
/venv/bin/python -c 'import hypothesis, xlcalculator; print("setup ok: hypothesis", hypothesis.__version__)'
